#!/bin/sh
# Confirm a seeded change: tools/seedcheck.sh <ID> <dir with patch.diff and demo.rs> [extra cargo test args for the demo]
# 1. the repository's own suite still passes with the change; 2. the demo fails with it; 3. passes without.
# Works in a scratch worktree under /tmp that is removed at the end.  Prints CONFIRMED or NOT-CONFIRMED.
ID=$1; DIR=$2; EXTRA=$3
WT=/tmp/sc_$ID
git -C /repo worktree remove --force $WT >/dev/null 2>&1
git -C /repo worktree add --detach $WT HEAD >/dev/null 2>&1 || exit 2
cd $WT
if ! git apply $DIR/patch.diff; then echo "NOT-CONFIRMED: patch does not apply"; git -C /repo worktree remove --force $WT; exit 1; fi
SUITE=$(cargo test --offline 2>&1 | grep -E "^test result" | head -1)
mkdir -p tests; cp $DIR/demo.rs tests/seed_demo.rs
WITH=$(cargo test --offline $EXTRA --test seed_demo 2>&1 | grep -E "^test result" | head -1)
git checkout -- src Cargo.toml benches 2>/dev/null
WITHOUT=$(cargo test --offline $EXTRA --test seed_demo 2>&1 | grep -E "^test result" | head -1)
echo "suite with change : $SUITE"
echo "demo with change  : $WITH"
echo "demo without      : $WITHOUT"
cd /; git -C /repo worktree remove --force $WT
case "$SUITE" in *"55 passed; 0 failed"*) ;; *) echo "NOT-CONFIRMED: suite"; exit 1;; esac
case "$WITH" in *FAILED*) ;; *) echo "NOT-CONFIRMED: demo does not fail with the change"; exit 1;; esac
case "$WITHOUT" in *"test result: ok"*) ;; *) echo "NOT-CONFIRMED: demo fails without the change"; exit 1;; esac
echo CONFIRMED
