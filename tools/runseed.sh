#!/bin/sh
# Run checks against a seeded change: tools/runseed.sh <patch.diff> <ID> [<ID> ...]
# applies the patch to /repo, runs the given checks (quick tier), and always reverts /repo.
PATCH=$1; shift
cd /repo && git apply $PATCH || { echo "patch does not apply"; exit 2; }
cd /verif
for id in "$@"; do
  ./check $id > /tmp/runseed_$id.log 2>&1; rc=$?
  echo "$id rc=$rc $(grep -c '^VIOLATION' /tmp/runseed_$id.log) violation lines; $(grep -E '^\[done\]|TOOL-ERROR' /tmp/runseed_$id.log | tail -1)"
done
git -C /repo checkout -- . ; git -C /repo status --short | head -3
