#!/bin/bash
# tools/huntseed.sh <seed-dir> [budget_ms]
# Sensitivity of `vdrive hunt` alone to one seeded change, WITHOUT touching /repo: a scratch worktree
# with the patch applied and a scratch copy of the harness pointing at it.  Prints the hunt statistics.
set -u
SD=$(readlink -f "$1"); BUD=${2:-5000}
PID=$(python3 -c "import json;print(json.load(open('$SD/meta.json'))['property'])")
TAG=$(basename $(dirname "$SD"))_$(basename "$SD")
WT=/tmp/hw_$TAG; HH=/tmp/hh_shared
git -C /repo worktree remove --force $WT >/dev/null 2>&1
git -C /repo worktree add --detach $WT HEAD >/dev/null 2>&1 || { echo "worktree failed"; exit 2; }
git -C $WT apply "$SD/patch.diff" || { echo "apply failed"; git -C /repo worktree remove --force $WT; exit 2; }
mkdir -p $HH
rsync -a --delete --exclude target /verif/harness/ $HH/
rm -rf /tmp/hw_current; ln -s $WT /tmp/hw_current
sed -i 's#path = "/repo"#path = "/tmp/hw_current"#' $HH/Cargo.toml
(cd $HH && cargo build --offline --profile checked --bin vdrive 2>&1 | grep -E "^error" | head -5)
echo -n "$TAG $PID: "
$HH/target/checked/vdrive hunt $PID 1 $BUD /tmp/hunt_$TAG.script
rm -f /tmp/hunt_$TAG.script
git -C /repo worktree remove --force $WT
rm -f /tmp/hw_current
