#!/bin/bash
# tools/scratchseed.sh <dir-with-patch.diff> <ID> [<ID> ...]
# Early feedback on a seeded change WITHOUT touching /repo (usable while other checks run): the patch is
# applied to a scratch worktree, and a scratch copy of /verif whose harness points at that worktree runs the
# given checks (quick tier).  The confirmation that counts is still tools/runseed.sh (patch applied to /repo).
set -u
SD=$(readlink -f "$1"); shift
TAG=$(basename "$SD")
WT=/tmp/sw_$TAG; VC=/tmp/vc_shared
git -C /repo worktree remove --force $WT >/dev/null 2>&1
git -C /repo worktree add --detach $WT HEAD >/dev/null 2>&1 || { echo "worktree failed"; exit 2; }
[ -s "$SD/patch.diff" ] || echo "(empty patch: the unchanged tree)"
[ ! -s "$SD/patch.diff" ] || git -C $WT apply "$SD/patch.diff" || { echo "apply failed"; git -C /repo worktree remove --force $WT; exit 2; }
mkdir -p $VC
rsync -a --delete --exclude out --exclude harness/target --exclude .git --exclude evidence /verif/ $VC/
mkdir -p $VC/evidence
rm -rf /tmp/sw_current; ln -s $WT /tmp/sw_current
sed -i 's#path = "/repo"#path = "/tmp/sw_current"#' $VC/harness/Cargo.toml
for id in "$@"; do
  (cd $VC && ./check $id > /tmp/scratchseed_${TAG}_$id.log 2>&1); rc=$?
  echo "$TAG $id rc=$rc $(grep -c '^VIOLATION' /tmp/scratchseed_${TAG}_$id.log) violation lines; $(grep -E '^\[hunt\]' /tmp/scratchseed_${TAG}_$id.log | tail -1) $(grep -E '^\[done\]|TOOL-ERROR' /tmp/scratchseed_${TAG}_$id.log | tail -1)"
done
git -C /repo worktree remove --force $WT
rm -f /tmp/sw_current
