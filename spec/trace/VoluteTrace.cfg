SPECIFICATION Spec
INVARIANT SpecStateOK
CHECK_DEADLOCK FALSE
