---------------------------- MODULE VoluteTrace ----------------------------
(***************************************************************************)
(* Trace validation: replays a trace recorded from the real code (one      *)
(* ndjson event per public call, see harness/src/exec.rs) on the state     *)
(* machine of Volute.tla, at the real word size.                           *)
(*                                                                         *)
(* The trace is a sequence of episodes separated by `reset` events.  Every *)
(* event is consumed.  For an operation that is STRICT in the current MODE *)
(* (the property being checked) the logged outcome, written tables and     *)
(* observable must be what the specification allows; a non-conforming      *)
(* event is reported as VIOL and poisons its episode (the rest of the      *)
(* trace is still checked).  For an operation that is only SETUP in this   *)
(* mode the specification adopts the logged (well-formed) result and never *)
(* reports a violation.                                                    *)
(***************************************************************************)
EXTENDS Volute, Json, IOUtils

MODE == IOEnv.MODE
TIER == IOEnv.TIER
Rec == ndJsonDeserialize(IOEnv.TRACE)
DUAL == IOEnv.DUAL = "1"
Rec2 == ndJsonDeserialize(IOEnv.TRACE2)
NSLOT == 8

VARIABLES l, slots, it, poisoned, nchk, nviol, nskip,
          pcache      \* [n, maps]: index maps of all input permutations of the size last canonized
vars == <<l, slots, it, poisoned, nchk, nviol, nskip, pcache>>

-----------------------------------------------------------------------------
(* What is strict in which mode *)
CtorOps == {"zero", "one", "default", "parity", "majority", "nth_var", "threshold", "equals", "symmetric"}
ValueStrictOps ==
  CASE MODE = "C01" -> {"logic"}
    [] MODE = "C02" -> {"rel"}
    [] MODE = "C03" -> {"flip", "swap", "swapadj", "cofactors", "fromcof"}
    [] MODE = "C06" -> {"decomp", "unate"}
    [] MODE = "C07" -> {"bdd"}
    [] MODE = "C08" -> {"rel", "iter_start", "iter_next", "vnext"}
    [] MODE = "C09" -> {"text", "from_hex"}
    [] MODE = "C10" -> {"conv_rt", "conv_try", "conv_int"}
    [] MODE = "C11" -> CtorOps
    [] OTHER -> {}
AllOps == CtorOps \cup {"copy", "from_hex", "logic", "flip", "swap", "swapadj", "cofactors", "fromcof",
                        "setbit", "value", "rel", "info", "decomp", "unate", "text", "bdd",
                        "iter_start", "iter_next", "vnext", "load", "reload", "conv_rt", "conv_try"}
OutcomeStrictOps == IF MODE = "C17" THEN AllOps ELSE ValueStrictOps
WFStrict == MODE = "C02"

-----------------------------------------------------------------------------
(* Decoding of logged tables *)
WFTab(t) == /\ t.nb = NumBlocks(t.n)
            /\ "valpanic" \notin DOMAIN t
            /\ \A k \in 1..Len(t.on) : t.on[k] < 2^t.n
Meaning(t) == IF "val" \in DOMAIN t THEN ToSet(t.val) ELSE {m \in ToSet(t.on) : m < 2^t.n}
IsSame(p) == "same" \in DOMAIN p
Observed(p) == IF IsSame(p) THEN slots[p.s] ELSE Val(p.t.n, Meaning(p.t))
PostWF(p) == IsSame(p) \/ WFTab(p.t)
Posts(e) == IF "post" \in DOMAIN e THEN e.post ELSE <<>>
AllPostWF(e) == \A k \in 1..Len(Posts(e)) : PostWF(Posts(e)[k])
Adopted(e) ==   \* slot file after adopting every logged table
  [s \in 0..(NSLOT - 1) |->
     IF \E k \in 1..Len(Posts(e)) : Posts(e)[k].s = s
     THEN Observed(Posts(e)[CHOOSE k \in 1..Len(Posts(e)) : Posts(e)[k].s = s])
     ELSE slots[s]]
ObsR(e) == IF "r" \in DOMAIN e THEN e.r ELSE NoObs

-----------------------------------------------------------------------------
(* Verdicts.  v.k \in {"ok", "viol", "poison"} *)
Good(S, i) == [k |-> "ok", why |-> "", slots |-> S, it |-> i, chk |-> 1, pc |-> pcache]
Setup(S, i) == [k |-> "ok", why |-> "", slots |-> S, it |-> i, chk |-> 0, pc |-> pcache]
Bad(w) == [k |-> "viol", why |-> w, slots |-> slots, it |-> it, chk |-> 1, pc |-> pcache]
Poison == [k |-> "poison", why |-> "", slots |-> slots, it |-> it, chk |-> 0, pc |-> pcache]

\* logged result of a successful call, adopted as the new state (setup steps)
Adopt(e, i) == IF e.out # "ok" THEN Poison
               ELSE IF ~AllPostWF(e) THEN (IF WFStrict THEN Bad("malformed table") ELSE Poison)
               ELSE Setup(Adopted(e), i)

LoadOutcomes(e) == IF "nbk" \in DOMAIN e /\ e.nbk # NumBlocks(e.n) THEN {"panic"} ELSE {"ok"}

\* C02 restricts the comparison observables to what the property states: equality,
\* hash-equality, and `Ordering::Equal`-ness
C02Rel(e, allowed) ==
  IF e.f \in {"cmp", "pcmp"} THEN (e.r = "eq") = ("eq" \in allowed)
  ELSE IF e.f \in {"eq", "ne", "hasheq"} THEN e.r \in allowed
  ELSE TRUE

GenericVerdict(e) ==
  LET vstrict == e.op \in ValueStrictOps
      ostrict == e.op \in OutcomeStrictOps
  IN
  IF ~(vstrict \/ ostrict) THEN
     (IF e.op \in {"iter_start", "iter_next"} THEN Adopt(e, Apply(e, slots, it).it) ELSE Adopt(e, it))
  ELSE
  LET x == IF e.op = "load" THEN Ret(LoadOutcomes(e), NoW, {NoObs}, it) ELSE Apply(e, slots, it) IN
  IF e.out \notin x.out THEN
     (IF ostrict THEN Bad("outcome " \o e.out \o " not allowed") ELSE Adopt(e, x.it))
  ELSE IF e.out # "ok" THEN Good(slots, it)
  ELSE IF ~AllPostWF(e) THEN (IF WFStrict THEN Bad("malformed table") ELSE Poison)
  ELSE IF ~vstrict THEN [Adopt(e, x.it) EXCEPT !.chk = 1]
  ELSE LET Sx == x.w @@ slots
           ps == Posts(e)
       IN IF \E s \in DOMAIN x.w : \A k \in 1..Len(ps) : ps[k].s # s
          THEN Assert(FALSE, <<"harness did not log a written slot", l, e.op>>)
          ELSE IF \E k \in 1..Len(ps) : Observed(ps[k]) # Sx[ps[k].s]
          THEN Bad("wrong table, post #" \o ToString((CHOOSE k \in 1..Len(ps) : Observed(ps[k]) # Sx[ps[k].s])))
          ELSE IF ~(IF MODE = "C02" THEN C02Rel(e, x.r) ELSE ObsR(e) \in x.r)
          THEN Bad("wrong observable")
          ELSE Good(Sx, x.it)

-----------------------------------------------------------------------------
(* Integer conversions (C10): bit m of the integer is f(m), both ways *)
ConvIntVerdict(e) ==
  IF MODE # "C10" THEN Setup(slots, it)
  ELSE IF e.out # "ok" THEN Bad("outcome " \o e.out \o " not allowed")
  ELSE LET nn == CASE e.w = 8 -> 3 [] e.w = 16 -> 4 [] e.w = 32 -> 5 [] e.w = 64 -> 6
           bits == ToSet(e.vb)
       IN IF ~(e.r.t.n = nn /\ WFTab(e.r.t) /\ Meaning(e.r.t) = bits) THEN Bad("integer to table")
          ELSE IF ToSet(e.r.back) # bits THEN Bad("table to integer")
          ELSE Good(slots, it)

-----------------------------------------------------------------------------
(* Canonization (C04: the representative; C05: the certificate) *)
Feasible(kind, n) ==
  CASE kind = "n" -> n <= 9
    [] kind = "p" -> n <= (IF TIER = "thorough" THEN 8 ELSE 7)
    [] kind = "npn" -> n <= (IF TIER = "thorough" THEN 7 ELSE 6)
PostOf(e, s) == Posts(e)[CHOOSE k \in 1..Len(Posts(e)) : Posts(e)[k].s = s]
\* Every recorded walk is, for its own group, a closed cycle through every group element; a
\* walk of another group is acceptable when it covers the group of the call (for n <= 1 there
\* is no permutation, so an N walk covers NPN and P is trivial)
WalkValid(w) ==
  /\ w.kind \in {"p", "npn"} => IsHamiltonianSwapCycle(w.swaps, w.n)
  /\ w.kind \in {"n", "npn"} => IsGrayCycle(w.flips, w.n)
WalkCovers(w, kind, n) ==
  /\ w.n = n
  /\ \/ w.kind = kind
     \/ w.kind = "npn"
     \/ n <= 1 /\ (kind = "p" \/ w.kind = "n")
WalksOK(e, kind, n) == \A k \in 1..Len(e.walk) : WalkValid(e.walk[k]) /\ WalkCovers(e.walk[k], kind, n)
CanonVerdict(e) ==
  IF MODE \notin {"C04", "C05"} THEN Adopt(e, it)
  ELSE IF e.out # "ok" THEN (IF MODE = "C04" THEN Bad("canonization did not return") ELSE Poison)
  ELSE IF ~AllPostWF(e) THEN Poison
  ELSE
  LET A == slots[e.a]
      res == Observed(PostOf(e, e.d))
      Sx == (e.d :> res) @@ slots
  IN
  IF MODE = "C05" THEN
     (IF CertOK(e.kind, A.n, A.on, res.on, e.r.perm, ToSet(e.r.mask)) /\ res.n = A.n
      THEN Good(Sx, it) ELSE Bad("invalid certificate"))
  ELSE IF res.n # A.n THEN Bad("wrong size")
  ELSE IF ~WalksOK(e, e.kind, A.n) THEN Bad("walk is not a Hamiltonian cycle")
  ELSE IF Feasible(e.kind, A.n) THEN
     (\* exact: the orbit minimum by enumeration of the group (the index maps of the input
      \* permutations are cached per size in `pcache`)
      LET pc == IF e.kind # "n" /\ pcache.n # A.n THEN [n |-> A.n, maps |-> PermMaps(A.n)] ELSE pcache
          m == OrbitMinEnum(e.kind, A.n, A.on, pc.maps)
      IN IF res.on = m THEN [Good(Sx, it) EXCEPT !.pc = pc]
         ELSE IF PrintT(<<"QUERY", l, m>>) THEN [Bad("not the orbit minimum") EXCEPT !.pc = pc] ELSE Bad("?"))
  ELSE
     (\* beyond enumeration: the walk must have been observed and be a verified cycle; the
      \* result must lie in the orbit (certificate) - minimality then follows from the walk
      \* theorem (mc/MC_Canon) for the loop code checked exactly at the smaller sizes
      IF e.walk = <<>> THEN Assert(FALSE, <<"no walk recorded", l>>)
      ELSE IF Less(A.on, res.on) THEN Bad("result larger than the input")
      ELSE Good(Sx, it))

Verdict(e) ==
  IF e.out = "skip" THEN Poison
  ELSE IF e.op = "canon" THEN CanonVerdict(e)
  ELSE IF e.op = "conv_int" THEN ConvIntVerdict(e)
  ELSE IF e.op = "random" THEN Adopt(e, it)
  ELSE GenericVerdict(e)

\* Dual traces: the same script run a second time (other build profile / other table type)
StripTy(e) == [k \in (DOMAIN e) \ {"ty"} |-> e[k]]
DualOK(e) == IF ~DUAL THEN TRUE
             ELSE IF MODE = "C10" THEN StripTy(e) = StripTy(Rec2[l])
             ELSE e = Rec2[l]

-----------------------------------------------------------------------------
Init == /\ l = 1
        /\ slots = [s \in 0..(NSLOT - 1) |-> NoVal]
        /\ it = NoIter
        /\ poisoned = FALSE
        /\ nchk = 0 /\ nviol = 0 /\ nskip = 0
        /\ pcache = [n |-> 0, maps |-> PermMaps(0)]

StepOf(e) ==
     IF e.op = "reset" THEN
        /\ slots' = [s \in 0..(NSLOT - 1) |-> NoVal]
        /\ it' = NoIter
        /\ poisoned' = FALSE
        /\ UNCHANGED <<nchk, nviol, nskip>>
        /\ UNCHANGED pcache
     ELSE IF poisoned THEN UNCHANGED <<slots, it, poisoned, nchk, nviol, nskip, pcache>>
     ELSE \E v0 \in {Verdict(e)} :
          \E v \in {IF v0.k = "ok" /\ ~DualOK(e) THEN Bad("second trace differs") ELSE v0} :
             /\ slots' = v.slots
             /\ it' = v.it
             /\ poisoned' = (v.k # "ok")
             /\ nchk' = nchk + (IF DUAL /\ v.k = "ok" THEN 1 ELSE v.chk)
             /\ nviol' = IF v.k = "viol" THEN nviol + 1 ELSE nviol
             /\ nskip' = IF v.k = "poison" THEN nskip + 1 ELSE nskip
             /\ IF v.k = "viol" THEN PrintT(<<"VIOL", l, e.op, v.why>>) ELSE TRUE
             /\ pcache' = v.pc

Step ==
  /\ l <= Len(Rec)
  /\ l' = l + 1
  /\ \E e \in {Rec[l]} : StepOf(e)

Finish == /\ l = Len(Rec) + 1
          /\ l' = l + 1
          /\ PrintT(<<"DONE", Len(Rec), nchk, nviol, nskip>>)
          /\ UNCHANGED <<slots, it, poisoned, nchk, nviol, nskip, pcache>>

Spec == Init /\ [][Step \/ Finish]_vars

\* The specification's own state is always well-formed: a failure here is an inconsistency of
\* the specification (tool error), never a finding about the code
SpecStateOK == \A s \in 0..(NSLOT - 1) : slots[s] = NoVal \/ slots[s].on \subseteq Dom(slots[s].n)
=============================================================================
