---------------------------- MODULE VoluteTrace ----------------------------
(***************************************************************************)
(* Trace validation: replays a trace recorded from the real code (one      *)
(* ndjson event per public call, see harness/src/exec.rs) on the state     *)
(* machine of Volute.tla, at the real word size.                           *)
(*                                                                         *)
(* The trace is a sequence of episodes separated by `reset` events.  Every *)
(* event is consumed.  For an operation that is STRICT in the current MODE *)
(* (the property being checked) the logged outcome, written tables and     *)
(* observable must be what the specification allows; a non-conforming      *)
(* event is reported as VIOL and poisons its episode (the rest of the      *)
(* trace is still checked).  For an operation that is only SETUP in this   *)
(* mode the specification adopts the logged (well-formed) result and never *)
(* reports a violation.                                                    *)
(***************************************************************************)
EXTENDS Volute, Json, IOUtils

MODE == IOEnv.MODE
TIER == IOEnv.TIER
Rec == ndJsonDeserialize(IOEnv.TRACE)
DUAL == IOEnv.DUAL = "1"
Rec2 == ndJsonDeserialize(IOEnv.TRACE2)
NSLOT == 8

K6 == INSTANCE Kernels WITH K <- 6      \* only the constant tables (as bit sets) are used at K = 6

VARIABLES l, slots, it, poisoned, nchk, nviol, nskip,
          pcache,     \* [n, maps]: index maps of all input permutations of the size last canonized
          bstart,     \* line of the last rand_begin: the draws of a batch are read back from the trace itself
          nkern       \* events whose representation was compared with an implementation-shaped kernel
vars == <<l, slots, it, poisoned, nchk, nviol, nskip, pcache, bstart, nkern>>

-----------------------------------------------------------------------------
(* What is strict in which mode *)
CtorOps == {"zero", "one", "default", "parity", "majority", "nth_var", "threshold", "equals", "symmetric"}
ValueStrictOps ==
  CASE MODE = "C01" -> {"logic"}
    [] MODE = "C02" -> {"rel"}
    [] MODE = "C03" -> {"flip", "swap", "swapadj", "cofactors", "fromcof"}
    [] MODE = "C06" -> {"decomp", "unate"}
    [] MODE = "C07" -> {"bdd"}
    [] MODE = "C08" -> {"rel", "iter_start", "iter_next", "vnext", "iter_count"}
    [] MODE = "C09" -> {"text", "from_hex"}
    [] MODE = "C10" -> {"conv_rt", "conv_try", "conv_int"}
    [] MODE = "C11" -> CtorOps
    [] OTHER -> {}
AllOps == CtorOps \cup {"copy", "from_hex", "logic", "flip", "swap", "swapadj", "cofactors", "fromcof",
                        "setbit", "value", "rel", "info", "decomp", "unate", "text", "bdd",
                        "iter_start", "iter_next", "vnext", "load", "reload", "conv_rt", "conv_try", "clone_from", "iter_count"}
OutcomeStrictOps == IF MODE = "C17" THEN AllOps ELSE ValueStrictOps
WFStrict == MODE = "C02"

-----------------------------------------------------------------------------
(* Decoding of logged tables *)
WFTab(t) == /\ t.nb = NumBlocks(t.n)
            /\ "valpanic" \notin DOMAIN t
            /\ \A k \in 1..Len(t.on) : t.on[k] < 2^t.n
Meaning(t) == IF "val" \in DOMAIN t THEN ToSet(t.val) ELSE {m \in ToSet(t.on) : m < 2^t.n}
IsSame(p) == "same" \in DOMAIN p
Observed(p) == IF IsSame(p) THEN slots[p.s] ELSE Val(p.t.n, Meaning(p.t))
PostWF(p) == IsSame(p) \/ WFTab(p.t)
Posts(e) == IF "post" \in DOMAIN e THEN e.post ELSE <<>>
AllPostWF(e) == \A k \in 1..Len(Posts(e)) : PostWF(Posts(e)[k])
Adopted(e) ==   \* slot file after adopting every logged table
  [s \in 0..(NSLOT - 1) |->
     IF \E k \in 1..Len(Posts(e)) : Posts(e)[k].s = s
     THEN Observed(Posts(e)[CHOOSE k \in 1..Len(Posts(e)) : Posts(e)[k].s = s])
     ELSE slots[s]]
ObsR(e) == IF "r" \in DOMAIN e THEN e.r ELSE NoObs

-----------------------------------------------------------------------------
(* Verdicts.  v.k \in {"ok", "viol", "poison"} *)
Good(S, i) == [k |-> "ok", why |-> "", slots |-> S, it |-> i, chk |-> 1, pc |-> pcache, kern |-> 0]
Setup(S, i) == [k |-> "ok", why |-> "", slots |-> S, it |-> i, chk |-> 0, pc |-> pcache, kern |-> 0]
Bad(w) == [k |-> "viol", why |-> w, slots |-> slots, it |-> it, chk |-> 1, pc |-> pcache, kern |-> 0]
Poison == [k |-> "poison", why |-> "", slots |-> slots, it |-> it, chk |-> 0, pc |-> pcache, kern |-> 0]

\* logged result of a successful call, adopted as the new state (setup steps)
Adopt(e, i) == IF e.out = "err" THEN Setup(slots, i)        \* a reported error leaves every slot as it was
               ELSE IF e.out # "ok" THEN Poison
               ELSE IF ~AllPostWF(e) THEN (IF WFStrict THEN Bad("malformed table") ELSE Poison)
               ELSE Setup(Adopted(e), i)

LoadOutcomes(e) == IF "nbk" \in DOMAIN e /\ e.nbk # NumBlocks(e.n) THEN {"panic"} ELSE {"ok"}

\* C02 restricts the comparison observables to what the property states: equality,
\* hash-equality, and `Ordering::Equal`-ness
C02Rel(e, allowed) ==
  IF e.f \in {"cmp", "pcmp"} THEN (e.r = "eq") = ("eq" \in allowed)
  ELSE IF e.f \in {"eq", "ne", "hasheq"} THEN e.r \in allowed
  ELSE TRUE

GenericVerdict(e) ==
  LET vstrict == e.op \in ValueStrictOps
      ostrict == e.op \in OutcomeStrictOps
  IN
  IF ~(vstrict \/ ostrict) THEN
     (IF e.op \in {"iter_start", "iter_next"} THEN Adopt(e, Apply(e, slots, it).it) ELSE Adopt(e, it))
  ELSE
  LET x == IF e.op = "load" THEN Ret(LoadOutcomes(e), NoW, {NoObs}, it) ELSE Apply(e, slots, it) IN
  IF e.out \notin x.out THEN
     (IF ostrict THEN Bad("outcome " \o e.out \o " not allowed") ELSE Adopt(e, x.it))
  ELSE IF e.out # "ok" THEN Good(slots, it)
  ELSE IF ~AllPostWF(e) THEN (IF WFStrict THEN Bad("malformed table") ELSE Poison)
  ELSE IF ~vstrict THEN [Adopt(e, x.it) EXCEPT !.chk = 1]
  ELSE LET Sx == x.w @@ slots
           ps == Posts(e)
       IN IF \E s \in DOMAIN x.w : \A k \in 1..Len(ps) : ps[k].s # s
          THEN Assert(FALSE, <<"harness did not log a written slot", l, e.op>>)
          ELSE IF \E k \in 1..Len(ps) : Observed(ps[k]) # Sx[ps[k].s]
          THEN Bad("wrong table, post #" \o ToString((CHOOSE k \in 1..Len(ps) : Observed(ps[k]) # Sx[ps[k].s])))
          ELSE IF ~(IF MODE = "C02" THEN C02Rel(e, x.r) ELSE ObsR(e) \in x.r)
          THEN Bad("wrong observable")
          ELSE IF e.op = "decomp" /\ "cls" \in DOMAIN e /\ e.cls # ClassFlags(e.r)
          THEN Bad("class family predicates disagree with the class")
          ELSE Good(Sx, x.it)

-----------------------------------------------------------------------------
(* Integer conversions (C10): bit m of the integer is f(m), both ways *)
ConvIntVerdict(e) ==
  IF MODE # "C10" THEN Setup(slots, it)
  ELSE IF e.out # "ok" THEN Bad("outcome " \o e.out \o " not allowed")
  ELSE LET nn == CASE e.w = 8 -> 3 [] e.w = 16 -> 4 [] e.w = 32 -> 5 [] e.w = 64 -> 6
           bits == ToSet(e.vb)
       IN IF ~(e.r.t.n = nn /\ WFTab(e.r.t) /\ Meaning(e.r.t) = bits) THEN Bad("integer to table")
          ELSE IF ToSet(e.r.back) # bits THEN Bad("table to integer")
          ELSE Good(slots, it)

-----------------------------------------------------------------------------
(* Orbit invariance (C04): the smallest table of an orbit does not depend on which member of the orbit was
   given.  The harness canonizes f and the variant g = ApplyCert(f, tperm, tmask) that it built itself; the
   variant is recomputed here (a wrong variant is a harness error, not a violation). *)
CanonInvVerdict(e) ==
  IF MODE # "C04" THEN Setup(slots, it)
  ELSE IF e.out # "ok" THEN Bad("canonization did not return")
  ELSE LET A == slots[e.a]
           g == ApplyCert(A.n, A.on, e.tperm, ToSet(e.tmask))
       IN IF ~(e.r.g.n = A.n /\ WFTab(e.r.g) /\ Meaning(e.r.g) = g)
          THEN Assert(FALSE, <<"harness built a wrong variant", l>>)
          ELSE IF ~(WFTab(e.r.r1) /\ WFTab(e.r.r2) /\ e.r.r1.n = A.n /\ e.r.r2.n = A.n) THEN Bad("malformed representative")
          ELSE IF Meaning(e.r.r1) # Meaning(e.r.r2) THEN Bad("equivalent inputs, different representatives")
          ELSE Good(slots, it)

-----------------------------------------------------------------------------
(* Programs on the iterator itself (C08): nth(k) for each k of e.ks on a fresh all_functions(n), then a
   consuming tail.  all_functions yields every function once in increasing order and then terminates, whatever
   Iterator method consumes it: nth(k) returns the item k places ahead, or nothing (and exhausts the iterator)
   when fewer than k + 1 remain; count() (and a fold) sees the number of items left; last() and max() are the constant one, min() the next item; size_hint
   brackets the number of items left. *)
LOCAL SQV == INSTANCE SequencesExt
NoItem == {0 - 1}
IterRun(n, ks) ==
  LET step(st, k) == LET x == IterNth(n, st, k) IN
                     [cur |-> x.cur, ok |-> x.ok, items |-> Append(st.items, IF x.some THEN x.item ELSE NoItem)]
  IN SQV!FoldLeft(step, [cur |-> {}, ok |-> TRUE, items |-> <<>>], ks)
ItemOK(n, j, exp) == IF exp = NoItem THEN ~j.some
                     ELSE j.some /\ j.t.n = n /\ WFTab(j.t) /\ Meaning(j.t) = exp
LeqNum(A, B) == A = B \/ Less(A, B)
IterProgVerdict(e) ==
  IF MODE = "C02" THEN     \* well-formedness of every table the iterator hands out, however it is driven
     (IF e.out # "ok" THEN Poison
      ELSE IF \E k \in 1..Len(e.r.items) : e.r.items[k].some /\ ~WFTab(e.r.items[k].t) THEN Bad("malformed table")
      ELSE IF e.tail \in {"last", "min", "max"} /\ e.r.tail.last.some /\ ~WFTab(e.r.tail.last.t) THEN Bad("malformed table")
      ELSE Good(slots, it))
  ELSE IF MODE # "C08" THEN Setup(slots, it)
  ELSE IF e.out # "ok" THEN Bad("outcome " \o e.out \o " not allowed")
  ELSE LET st == IterRun(e.n, e.ks)
           left == IF st.ok THEN CountFrom(e.n, st.cur) ELSE {}
       IN IF Len(e.r.items) # Len(e.ks) \/ \E k \in 1..Len(e.ks) : ~ItemOK(e.n, e.r.items[k], st.items[k])
          THEN Bad("nth: wrong item")
          ELSE IF e.tail \in {"count", "fold"} /\ ToSet(e.r.tail.count) # left THEN Bad("count of the remaining items")
          ELSE IF e.tail \in {"last", "max"} /\ ~ItemOK(e.n, e.r.tail.last, IF st.ok THEN Dom(e.n) ELSE NoItem) THEN Bad("last item")
          ELSE IF e.tail = "min" /\ ~ItemOK(e.n, e.r.tail.last, IF st.ok THEN st.cur ELSE NoItem) THEN Bad("least remaining item")
          ELSE IF e.tail = "hint" /\ ~(LeqNum(ToSet(e.r.tail.lo), left) /\ (e.r.tail.has_hi => LeqNum(left, ToSet(e.r.tail.hi))))
          THEN Bad("size_hint does not bracket the remaining items")
          ELSE Good(slots, it)

-----------------------------------------------------------------------------
(* Canonization (C04: the representative; C05: the certificate) *)
Feasible(kind, n) ==
  CASE kind = "n" -> n <= 9
    [] kind = "p" -> n <= (IF TIER = "thorough" THEN 8 ELSE 7)
    [] kind = "npn" -> n <= (IF TIER = "thorough" THEN 7 ELSE 6)
PostOf(e, s) == Posts(e)[CHOOSE k \in 1..Len(Posts(e)) : Posts(e)[k].s = s]
\* Every recorded walk is, for its own group, a closed cycle through every group element; a
\* walk of another group is acceptable when it covers the group of the call (for n <= 1 there
\* is no permutation, so an N walk covers NPN and P is trivial)
WalkValid(w) ==
  /\ w.kind \in {"p", "npn"} => IsHamiltonianSwapCycle(w.swaps, w.n)
  /\ w.kind \in {"n", "npn"} => IsGrayCycle(w.flips, w.n)
WalkCovers(w, kind, n) ==
  /\ w.n = n
  /\ \/ w.kind = kind
     \/ w.kind = "npn"
     \/ n <= 1 /\ (kind = "p" \/ w.kind = "n")
\* (a sequence already verified in this trace is not verified again: pcache.seqs)
\* (the harness logs a walk identical to that of an earlier event of the same trace file as a reference to it)
WalkOf(e) == IF "walk_ref" \in DOMAIN e THEN Rec[e.walk_ref].walk ELSE e.walk
WalksOK(e, kind, n) ==
  LET wk == WalkOf(e) IN
  \A k \in 1..Len(wk) :
     /\ WalkCovers(wk[k], kind, n)
     /\ (<<wk[k].kind, wk[k].n, wk[k].swaps, wk[k].flips>> \in pcache.seqs \/ WalkValid(wk[k]))
SeqsOf(e) == LET wk == WalkOf(e) IN {<<wk[k].kind, wk[k].n, wk[k].swaps, wk[k].flips>> : k \in 1..Len(wk)}
CanonVerdict(e) ==
  IF MODE \notin {"C04", "C05"} THEN Adopt(e, it)
  ELSE IF e.out # "ok" THEN (IF MODE = "C04" THEN Bad("canonization did not return") ELSE Poison)
  ELSE IF ~AllPostWF(e) THEN Poison
  ELSE
  LET A == slots[e.a]
      res == Observed(PostOf(e, e.d))
      Sx == (e.d :> res) @@ slots
  IN
  IF MODE = "C05" THEN
     (IF CertOK(e.kind, A.n, A.on, res.on, e.r.perm, ToSet(e.r.mask)) /\ res.n = A.n
      THEN Good(Sx, it) ELSE Bad("invalid certificate"))
  ELSE IF res.n # A.n THEN Bad("wrong size")
  ELSE IF ~WalksOK(e, e.kind, A.n) THEN Bad("walk is not a Hamiltonian cycle")
  ELSE IF Feasible(e.kind, A.n) THEN
     (\* exact: the orbit minimum by enumeration of the group (the index maps of the input
      \* permutations are cached per size in `pcache`)
      LET pc0 == IF e.kind # "n" /\ pcache.n # A.n THEN [pcache EXCEPT !.n = A.n, !.maps = PermMaps(A.n)] ELSE pcache
          pc == [pc0 EXCEPT !.seqs = @ \cup SeqsOf(e)]
          m == OrbitMinEnum(e.kind, A.n, A.on, pc.maps)
      IN IF res.on = m THEN [Good(Sx, it) EXCEPT !.pc = pc]
         ELSE IF PrintT(<<"QUERY", l, m>>) THEN [Bad("not the orbit minimum") EXCEPT !.pc = pc] ELSE Bad("?"))
  ELSE
     (\* beyond enumeration: the walk must have been observed and be a verified cycle; the
      \* result must lie in the orbit (certificate) - minimality then follows from the walk
      \* theorem (mc/MC_Canon) for the loop code checked exactly at the smaller sizes
      IF WalkOf(e) = <<>> THEN Assert(FALSE, <<"no walk recorded", l>>)
      ELSE IF ~e.le_in THEN Bad("result larger than the input")     \* in the library's own ordering
      ELSE LET nb == {g \in (IF TIER = "thorough" THEN Neighbours2(e.kind, A.n, res.on) ELSE Neighbours(e.kind, A.n, res.on)) : Less(g, res.on)} IN
           IF nb # {} THEN     \* a necessary condition: no table one (thorough: two) generator steps away is smaller
              (IF PrintT(<<"QUERY", l, MinFn(A.n, nb)>>) THEN Bad("not the orbit minimum") ELSE Bad("?"))
           ELSE [Good(Sx, it) EXCEPT !.pc = [pcache EXCEPT !.seqs = @ \cup SeqsOf(e)]])

-----------------------------------------------------------------------------
(* Two-level forms (C12 - C16).  Events are self-contained: operands (av, bv) and results (r)  *)
(* are logged as projections read through the public accessors.                             *)
DC(c) == [p |-> ToSet(c.p), q |-> ToSet(c.q)]
DE(c) == [v |-> ToSet(c.v), x |-> c.x]
DCs(cs) == [k \in 1..Len(cs) |-> DC(cs[k])]
DEs(cs) == [k \in 1..Len(cs) |-> DE(cs[k])]
CubeOK(j, exp) == DC(j) = exp /\ j.z = (exp = CubeZero)
FormFn(k, n, cs) == CASE k = "sop" -> SopFnX(n, DCs(cs)) [] k = "esop" -> EsopFnX(n, DCs(cs)) [] k = "soes" -> SoesFn(n, DEs(cs))
TwoKindStrict(k, op) ==
  CASE MODE = "C12" -> k = "cube" /\ op \notin {"t_text", "t_alltext"}
    [] MODE = "C13" -> k \in {"ecube", "soes"} /\ op \notin {"t_text", "t_alltext"}
    [] MODE = "C14" -> k = "sop" /\ op \notin {"t_text", "t_alltext"}
    [] MODE = "C15" -> k = "esop" /\ op \notin {"t_text", "t_alltext"}
    [] MODE = "C16" -> op \in {"t_text", "t_alltext"}
    [] OTHER -> FALSE
SmallSupport(a, b) == Cardinality(CubeSupport(a) \cup CubeSupport(b)) <= 10

MkCubeExp(e) ==
  CASE e.c = "one" -> CubeOne
    [] e.c = "zero" -> CubeZero
    [] e.c = "nth_var" -> [p |-> {e.i}, q |-> {}]
    [] e.c = "nth_var_inv" -> [p |-> {}, q |-> {e.i}]
    [] e.c = "minterm" -> Minterm(e.n, ToSet(e.mb))
    [] e.c \in {"from_vars", "from_mask"} -> MkCube(ToSet(e.p), ToSet(e.q))
MkEcubeExp(e) ==
  CASE e.c = "one" -> [v |-> {}, x |-> TRUE]
    [] e.c = "zero" -> [v |-> {}, x |-> FALSE]
    [] e.c = "nth_var" -> [v |-> {e.i}, x |-> FALSE]
    [] e.c = "nth_var_inv" -> [v |-> {e.i}, x |-> TRUE]
    [] e.c = "from_vars" -> [v |-> ToSet(e.v), x |-> e.x]
\* form constructors: the result denotes the function its name / its cube list says (the
\* representation is the library's choice); conversions from a Lut are pinned down by C14 / C15
MkFormOK(e) ==
  LET cs == e.r.cubes
      dec == IF e.k = "soes" THEN DEs(cs) ELSE DCs(cs)
      den == FormFn(e.k, e.n, cs)
      f == IF e.c \in {"from_lut_ref", "from_lut_val"} THEN ToSet(e.on) ELSE {}
  IN /\ e.r.n = e.n
     /\ ToSet(e.r.vals) = den                                  \* value() is the OR / XOR of the terms
     /\ CASE e.c = "zero" -> den = {}
          [] e.c = "one" -> den = Dom(e.n)
          [] e.c = "nth_var" -> den = NthVar(e.n, e.i)
          [] e.c = "nth_var_inv" -> den = Dom(e.n) \ NthVar(e.n, e.i)
          [] e.c = "from_cubes" -> den = FormFn(e.k, e.n, e.cubes)
          [] e.k = "sop" -> IsMintermCover(e.n, f, dec) /\ den = f
          [] e.k = "esop" -> Len(dec) = Cardinality(PprmCubes(e.n, f)) /\ SeqSet(dec) = PprmCubes(e.n, f)
                             /\ den = f

TwoOK(e) ==
  CASE e.op = "t_mk" ->
         (CASE e.k = "cube" -> CubeOK(e.r, MkCubeExp(e))
            [] e.k = "ecube" -> DE(e.r) = MkEcubeExp(e)
            [] OTHER -> MkFormOK(e))
    [] e.op = "t_val" ->
         LET M == ToSet(e.mb) IN
         (CASE e.k = "cube" -> e.r = CubeVal(DC(e.av), M)
            [] e.k = "ecube" -> e.r = EcubeVal(DE(e.av), M)
            [] e.k = "sop" -> e.r = (\E k \in 1..Len(e.av.cubes) : CubeVal(DC(e.av.cubes[k]), M))
            [] e.k = "soes" -> e.r = (\E k \in 1..Len(e.av.cubes) : EcubeVal(DE(e.av.cubes[k]), M))
            [] e.k = "esop" -> e.r = (Cardinality({k \in 1..Len(e.av.cubes) : CubeVal(DC(e.av.cubes[k]), M)}) % 2 = 1))
    [] e.op = "t_bin" ->
         (CASE e.k = "cube" -> CubeOK(e.r, CubeAnd(DC(e.av), DC(e.bv)))
            [] e.k = "ecube" -> DE(e.r) = EcubeXor(DE(e.av), DE(e.bv))
            [] OTHER ->
               LET n == e.av.n
                   fa == FormFn(e.k, n, e.av.cubes)
                   fb == FormFn(e.k, n, e.bv.cubes)
                   fr == CASE e.g = "and" -> fa \cap fb [] e.g = "or" -> fa \cup fb [] e.g = "xor" -> SymDiff(fa, fb)
               IN /\ e.r.n = n
                  /\ ToSet(e.r.vals) = fr
                  /\ FormFn(e.k, n, e.r.cubes) = fr
                  /\ e.k = "sop" => IrredundantLong(DCs(e.r.cubes)))
    [] e.op = "t_not" ->
         (CASE e.k = "ecube" -> DE(e.r) = EcubeNot(DE(e.av))
            [] OTHER ->
               LET n == e.av.n
                   fr == Dom(n) \ FormFn(e.k, n, e.av.cubes)
               IN /\ e.r.n = n
                  /\ ToSet(e.r.vals) = fr
                  /\ FormFn(e.k, n, e.r.cubes) = fr
                  /\ e.k = "sop" => IrredundantLong(DCs(e.r.cubes)))
    [] e.op = "t_rel" ->
         (CASE e.k = "cube" ->
                 LET a == DC(e.av)
                     b == DC(e.bv)
                     V == CubeSupport(a) \cup CubeSupport(b)
                 IN (CASE e.f = "implies" -> e.r = (IF SmallSupport(a, b) THEN ImpliesSem(a, b, V) ELSE ImpliesSyn(a, b))
                       [] e.f = "intersects" -> e.r = (IF SmallSupport(a, b) THEN IntersectsSem(a, b, V) ELSE IntersectsSyn(a, b))
                       [] e.f = "eq" -> e.r = (IF SmallSupport(a, b) THEN CubeSat(a, V) = CubeSat(b, V) ELSE a = b))
            [] e.k = "ecube" ->
                 LET a == DE(e.av)
                     b == DE(e.bv)
                     V == a.v \cup b.v
                 IN e.r = (IF Cardinality(V) <= 10 THEN \A M \in SUBSET V : EcubeVal(a, M) = EcubeVal(b, M) ELSE a = b)
            [] OTHER -> TRUE)
    [] e.op = "t_implut" ->
         (CASE e.k = "cube" -> e.r = ImplicantOf(DC(e.av), e.n, ToSet(e.on))
            [] e.k = "ecube" -> e.r = (EcubeFn(DE(e.av), e.n) \subseteq ToSet(e.on)))
    [] e.op = "t_info" ->
         (CASE e.k = "cube" ->
                 LET c == DC(e.av) IN
                 /\ e.r.num_lits = CubeNumLits(c) /\ e.r.num_gates = Gates(CubeNumLits(c))
                 /\ e.r.is_zero = Contradictory(c) /\ e.r.is_one = (c = CubeOne)
                 /\ e.r.is_constant = (Contradictory(c) \/ c = CubeOne)
            [] e.k = "ecube" ->
                 LET c == DE(e.av) IN
                 /\ e.r.num_lits = Cardinality(c.v) /\ e.r.num_gates = Gates(Cardinality(c.v))
                 /\ e.r.is_zero = (c.v = {} /\ ~c.x) /\ e.r.is_one = (c.v = {} /\ c.x)
            [] OTHER ->
                 LET n == e.av.n
                     f == FormFn(e.k, n, e.av.cubes)
                 IN /\ e.r.num_vars = n /\ e.r.num_cubes = Len(e.av.cubes)
                    /\ e.r.is_one => f = Dom(n)
                    /\ IF e.k = "sop" THEN e.r.is_zero = (f = {}) ELSE (e.r.is_zero => f = {}))
    [] e.op = "t_all" ->
         (CASE e.k = "cube" -> Len(e.r) = 3^e.n /\ {DC(e.r[k]) : k \in 1..Len(e.r)} = AllCubes(e.n)
            [] e.k = "ecube" -> Len(e.r) = 2^(e.n + 1) /\ {DE(e.r[k]) : k \in 1..Len(e.r)} = AllEcubes(e.n))
    [] e.op = "t_tolut" ->
         /\ e.r.n = e.av.n /\ WFTab(e.r) /\ Meaning(e.r) = FormFn(e.k, e.av.n, e.av.cubes)
    [] e.op = "t_text" ->
         /\ TextParses(e.r)
         /\ TextFn(e.r, e.n) = ToSet(e.vals)
         /\ TextIncreasing(e.r)
         /\ e.k = "ecube" => XorListIncreasing(e.r)
    [] e.op = "t_alltext" ->
         /\ \A k \in 1..Len(e.r) : TextParses(e.r[k].t)
         /\ Cardinality({e.r[k].t : k \in 1..Len(e.r)}) = Len(e.r)      \* distinct cubes print distinct text

-----------------------------------------------------------------------------
(* C18: the MIP optimizers *)
OptSol(e) == [j \in 1..Len(e.r) |-> [cubes |-> {DC(e.r[j].cubes[k]) : k \in 1..Len(e.r[j].cubes)},
                                      ecubes |-> {DE(e.r[j].ecubes[k]) : k \in 1..Len(e.r[j].ecubes)}]]
OptVerdict(e) ==
  IF MODE # "C18" THEN Setup(slots, it)
  ELSE IF e.out # "ok" THEN Bad("optimizer did not return")
  ELSE
  LET n == e.n
      fs == [j \in 1..Len(e.fs) |-> ToSet(e.fs[j])]
      sol == OptSol(e)
      isEsop == e.kind = "esop"
      nodup == \A j \in 1..Len(e.r) : Cardinality(sol[j].cubes) = Len(e.r[j].cubes)
                                        /\ Cardinality(sol[j].ecubes) = Len(e.r[j].ecubes)
      \* the library's own evaluation of what it returned
      own == \A j \in 1..Len(e.r) : WFTab(e.r[j].lut) /\ Meaning(e.r[j].lut) = fs[j] /\ ToSet(e.r[j].vals) = fs[j]
      sound == IF isEsop THEN SoundXor(n, fs, sol) ELSE SoundOr(n, fs, sol)
  IN IF Len(e.r) # Len(e.fs) THEN Bad("wrong number of forms")
     ELSE IF ~(nodup /\ own /\ sound) THEN Bad("form does not denote its function")
     ELSE LET cost == SolutionCost(sol, e.andc, e.xorc, e.orc, isEsop)
              \* k copies of one function: one form serves every copy at least as cheaply as different forms
              \* would (the union of their terms costs no less, and the cheaper-to-join form can be used k times), so the
              \* optimum is the single-output optimum with the join gate paid k times
              copies == Len(e.fs) >= 2 /\ \A j \in 1..Len(e.fs) : fs[j] = fs[1]
              k == Len(e.fs)
              opt == CASE copies /\ e.kind = "sop" -> OrOpt(n, <<fs[1]>>, CubeCands(n, e.andc), k * e.orc)
                       [] copies /\ e.kind = "sopes" -> OrOpt(n, <<fs[1]>>, CubeCands(n, e.andc) \cup EcubeCands(n, e.xorc), k * e.orc)
                       [] copies /\ e.kind = "esop" -> XorOpt(n, <<fs[1]>>, CubeCands(n, e.andc), k * e.xorc)
                       [] e.kind = "sop" -> OptSop(n, fs, e.andc, e.orc)
                       [] e.kind = "sopes" -> OptSopes(n, fs, e.andc, e.xorc, e.orc)
                       [] e.kind = "esop" -> OptEsop(n, fs, e.andc, e.xorc)
          IN IF cost = opt THEN Good(slots, it)
             ELSE IF PrintT(<<"INFO", l, "cost", cost, "optimum", opt>>) THEN Bad("not minimum cost") ELSE Bad("?")

(* Conformance of the implementation-shaped kernels of TwoLevel.tla (the algorithms of sop.rs, esop.rs,
   soes.rs and the Display impls) with the code.  Where a kernel applies, its exact output - cube order
   included - is compared with the logged representation.  A difference violates no property (the
   representation is the library's choice): it is printed as DRIFT, which tells that the kernel model no longer
   describes the code and that what mc/MC_TwoLevel establishes about the kernels no longer transfers.
   0 = no kernel applies (or the operands are too large), 1 = agrees, 2 = drift. *)
KernCheck(e) ==
  LET agree(b) == IF b THEN 1 ELSE 2 IN
  IF e.op = "t_text" /\ "av" \in DOMAIN e THEN
     (CASE e.k = "cube" -> agree(e.r = CubeText(DC(e.av)))
        [] e.k = "ecube" -> agree(e.r = EcubeText(DE(e.av)))
        [] e.k = "sop" -> IF Len(e.av.cubes) <= 8 THEN agree(e.r = SopText(DCs(e.av.cubes))) ELSE 0
        [] e.k = "esop" -> IF Len(e.av.cubes) <= 8 THEN agree(e.r = EsopText(DCs(e.av.cubes))) ELSE 0
        [] e.k = "soes" -> IF Len(e.av.cubes) <= 8 THEN agree(e.r = SoesText(DEs(e.av.cubes))) ELSE 0)
  ELSE IF e.op = "t_mk" /\ e.k \in {"sop", "esop", "soes"} THEN
     (CASE e.c = "from_cubes" /\ e.k = "soes" -> agree(DEs(e.r.cubes) = DEs(e.cubes))
        [] e.c = "from_cubes" -> agree(DCs(e.r.cubes) = DCs(e.cubes))
        [] e.c \in {"from_lut_ref", "from_lut_val"} /\ e.k = "sop" /\ e.n <= 6 ->
             agree(DCs(e.r.cubes) = SopFromLutK(e.n, ToSet(e.on)))
        [] e.c \in {"from_lut_ref", "from_lut_val"} /\ e.k = "esop" /\ e.n <= 5 ->
             agree(DCs(e.r.cubes) = EsopSweep(e.n, ToSet(e.on)))
        [] OTHER -> 0)
  ELSE IF e.op = "t_bin" /\ e.k = "sop" THEN
     (IF Len(e.av.cubes) * Len(e.bv.cubes) > 40 \/ Len(e.av.cubes) + Len(e.bv.cubes) > 16 THEN 0
      ELSE IF e.g = "and" THEN agree(DCs(e.r.cubes) = SopAndK(DCs(e.av.cubes), DCs(e.bv.cubes)))
      ELSE agree(DCs(e.r.cubes) = SopOrK(DCs(e.av.cubes), DCs(e.bv.cubes))))
  ELSE IF e.op = "t_bin" /\ e.k = "esop" THEN agree(DCs(e.r.cubes) = DCs(e.av.cubes) \o DCs(e.bv.cubes))
  ELSE IF e.op = "t_bin" /\ e.k = "soes" THEN agree(DEs(e.r.cubes) = DEs(e.av.cubes) \o DEs(e.bv.cubes))
  ELSE IF e.op = "t_not" /\ e.k = "esop" THEN agree(DCs(e.r.cubes) = Append(DCs(e.av.cubes), CubeOne))
  ELSE IF e.op = "t_not" /\ e.k = "sop" THEN
     (IF Len(e.av.cubes) > 3 \/ e.av.n > 5 THEN 0 ELSE agree(DCs(e.r.cubes) = SopNotK(DCs(e.av.cubes))))
  ELSE 0

(* C18 beyond the reach of the exact optimum: the same instance with its inputs permuted and its outputs
   reordered has the same minimum cost.  Every answer must be sound; two answers of different cost show that the
   more expensive one is not a minimum (the cheaper one, carried back through the permutation, is a witness).  Upper
   bounds from forms the specification can write down itself: the minterm cover, and for Esop the Reed-Muller form. *)
SolOf(r) == [j \in 1..Len(r) |-> [cubes |-> {DC(r[j].cubes[k]) : k \in 1..Len(r[j].cubes)},
                                   ecubes |-> {DE(r[j].ecubes[k]) : k \in 1..Len(r[j].ecubes)}]]
OptVarVerdict(e) ==
  IF MODE # "C18" THEN Setup(slots, it)
  ELSE IF e.out # "ok" THEN Bad("optimizer did not return")
  ELSE
  LET n == e.n
      isEsop == e.kind = "esop"
      base == [j \in 1..Len(e.fs) |-> ToSet(e.fs[j])]
      fsOf(k) == [j \in 1..Len(e.r[k].fs) |-> ToSet(e.r[k].fs[j])]
      vr(k) == IF k = 1 THEN [perm |-> [i \in 1..n |-> i - 1], order |-> [j \in 1..Len(e.fs) |-> j - 1]] ELSE e.variants[k - 1]
      variantOK(k) == LET v == vr(k) IN
                      /\ Len(e.r[k].fs) = Len(e.fs)
                      /\ \A j \in 1..Len(e.fs) : fsOf(k)[j] = ApplyCert(n, base[v.order[j] + 1], v.perm, {})
      sound(k) == LET sol == SolOf(e.r[k].sol)
                      fs == fsOf(k)
                  IN /\ Len(e.r[k].sol) = Len(e.fs)
                     /\ \A j \in 1..Len(e.fs) : Cardinality(sol[j].cubes) = Len(e.r[k].sol[j].cubes)
                                                   /\ Cardinality(sol[j].ecubes) = Len(e.r[k].sol[j].ecubes)
                     /\ \A j \in 1..Len(e.fs) : WFTab(e.r[k].sol[j].lut) /\ Meaning(e.r[k].sol[j].lut) = fs[j]
                                                   /\ ToSet(e.r[k].sol[j].vals) = fs[j]
                     /\ IF isEsop THEN SoundXor(n, fs, sol) ELSE SoundOr(n, fs, sol)
      cost(k) == SolutionCost(SolOf(e.r[k].sol), e.andc, e.xorc, e.orc, isEsop)
      costs == [k \in 1..Len(e.r) |-> cost(k)]
      \* forms anyone can write down
      minterms == [j \in 1..Len(e.fs) |-> [cubes |-> {Minterm(n, AsSet(m, n)) : m \in base[j]}, ecubes |-> {}]]
      pprm == [j \in 1..Len(e.fs) |-> [cubes |-> PprmCubes(n, base[j]), ecubes |-> {}]]
      bound == IF isEsop
               THEN MinNat({SolutionCost(minterms, e.andc, e.xorc, e.orc, TRUE), SolutionCost(pprm, e.andc, e.xorc, e.orc, TRUE)})
               ELSE SolutionCost(minterms, e.andc, e.xorc, e.orc, FALSE)
  IN IF \E k \in 1..Len(e.r) : ~variantOK(k) THEN Assert(FALSE, <<"harness built a wrong variant", l>>)
     ELSE IF \E k \in 1..Len(e.r) : ~sound(k) THEN Bad("form does not denote its function")
     ELSE IF \E k \in 1..Len(e.r) : costs[k] # costs[1]
          THEN (IF PrintT(<<"INFO", l, "costs of equivalent instances", costs>>) THEN Bad("not minimum cost") ELSE Bad("?"))
     ELSE IF costs[1] > bound
          THEN (IF PrintT(<<"INFO", l, "cost", costs[1], "witness", bound>>) THEN Bad("not minimum cost") ELSE Bad("?"))
     ELSE Good(slots, it)

TwoVerdict(e) ==
  IF ~TwoKindStrict(e.k, e.op) THEN Setup(slots, it)
  ELSE IF e.out # "ok" THEN Bad("outcome " \o e.out \o " not allowed")
  ELSE IF TwoOK(e) THEN [Good(slots, it) EXCEPT !.kern = KernCheck(e)]
  ELSE Bad("wrong result")

-----------------------------------------------------------------------------
(* C19: random().  Random(n) is a non-deterministic action: any well-formed table of n variables. *)
(* Non-degeneracy is a property of the history: at rand_end the draws of the batch are read   *)
(* back from the trace (no order between threads is assumed).                                 *)
RandomVerdict(e) ==
  IF MODE # "C19" THEN Adopt(e, it)
  ELSE IF e.out # "ok" THEN Bad("random() did not return")
  ELSE IF Len(e.post) = 1 /\ e.post[1].t.n = e.n /\ WFTab(e.post[1].t) THEN Good(slots, it)
  ELSE Bad("malformed random table")

RandEndOK(e) ==
  LET ks == {k \in (bstart + 1)..(l - 1) : Rec[k].op = "random"}
      tabs == Concrete([k \in ks |-> ToSet(Rec[k].post[1].t.on)])
      n == e.n
      thr(t) == {k \in ks : Rec[k].thr = t}
      \* per thread: signature of an assignment = the draws on which it is true, normalised
      \* against complementation on the thread's first draw
      sigs(t) == LET kt == thr(t)
                     k0 == Min(kt)
                 IN {LET sg == {k \in kt : m \in tabs[k]} IN IF k0 \in sg THEN kt \ sg ELSE sg : m \in Dom(n)}
  IN /\ Cardinality(ks) = e.threads * e.count
     /\ \A k \in ks : Cardinality(tabs[k]) >= 0                     \* (normalises the sets for fast membership)
     /\ \A t \in 0..(e.threads - 1) :
          /\ Cardinality(thr(t)) = e.count
          \* every assignment receives both values
          /\ UNION {tabs[k] : k \in thr(t)} = Dom(n)
          /\ \A m \in Dom(n) : \E k \in thr(t) : m \notin tabs[k]
          \* no assignment is constant, and no two assignments are tied (equal or complementary)
          /\ Cardinality(sigs(t)) = 2^n
          /\ {} \notin sigs(t)
     \* draws differ from one another, also across threads.  For a fair generator each bound below
     \* fails with probability < 2^-200 (256 draws per thread, at most 16 threads): all distinct for
     \* n >= 8, at most 1 (3) coincidences for n = 7 (6); for n <= 5, where coincidences are expected,
     \* the number of draws equal to their predecessor on the same thread is bounded
     /\ Cardinality({tabs[k] : k \in ks}) >= Cardinality(ks) - (IF n >= 8 THEN 0 ELSE IF n = 7 THEN 1 ELSE IF n = 6 THEN 3
                                                                ELSE Cardinality(ks) - (IF n = 0 THEN 2 ELSE 3))
     /\ n \in 2..5 =>
          \A t \in 0..(e.threads - 1) :
             Cardinality({k \in thr(t) : (k - 1) \in thr(t) /\ tabs[k] = tabs[k - 1]})
               <= (CASE n = 5 -> 6 [] n = 4 -> 19 [] n = 3 -> 59 [] n = 2 -> 119)

RandEndVerdict(e) ==
  IF MODE # "C19" THEN Setup(slots, it)
  ELSE IF RandEndOK(e) THEN Good(slots, it) ELSE Bad("degenerate random batch")

-----------------------------------------------------------------------------
(* The literal constant tables of operations.rs (through the `constants` hook) are the K = 6     *)
(* instances of the comprehension definitions of Kernels.tla                                     *)
ConstsOK(e) ==
  /\ Len(e.r.var_mask) = 6 /\ \A i \in 0..5 : ToSet(e.r.var_mask[i + 1]) = K6!VarMaskBits(i)
  /\ Len(e.r.num_vars_mask) = 7 /\ \A n \in 0..6 : ToSet(e.r.num_vars_mask[n + 1]) = K6!NumVarsMaskBits(n)
  /\ Len(e.r.count_masks) = 7 /\ \A c \in 0..6 : ToSet(e.r.count_masks[c + 1]) = K6!CountMaskBits(c)
  /\ Len(e.r.swap_input_masks) = 6
  /\ \A i \in 0..5 : Len(e.r.swap_input_masks[i + 1]) = 6
       /\ \A j \in 0..5 : ToSet(e.r.swap_input_masks[i + 1][j + 1]) = K6!SwapMaskBits(i, j)
ConstsVerdict(e) ==
  IF MODE \notin {"C01", "C03", "C06", "C11"} THEN Setup(slots, it)
  ELSE IF e.out = "ok" /\ ConstsOK(e) THEN Good(slots, it) ELSE Bad("constant table differs")

Verdict(e) ==
  IF e.out = "skip" THEN Poison
  ELSE IF e.op = "consts" THEN ConstsVerdict(e)
  ELSE IF e.op = "rand_begin" THEN Setup(slots, it)
  ELSE IF e.op = "rand_end" THEN RandEndVerdict(e)
  ELSE IF e.op = "random" THEN RandomVerdict(e)
  ELSE IF e.op = "optimize" THEN OptVerdict(e)
  ELSE IF e.op = "optimize_var" THEN OptVarVerdict(e)
  ELSE IF e.ty = "two" THEN TwoVerdict(e)
  ELSE IF e.op = "canon" THEN CanonVerdict(e)
  ELSE IF e.op = "conv_int" THEN ConvIntVerdict(e)
  ELSE IF e.op = "iter_prog" THEN IterProgVerdict(e)
  ELSE IF e.op = "canon_inv" THEN CanonInvVerdict(e)
  ELSE GenericVerdict(e)

\* Dual traces: the same script run a second time (other build profile / other table type)
StripTy(e) == [k \in (DOMAIN e) \ {"ty"} |-> e[k]]
DualOK(e) == IF ~DUAL THEN TRUE
             ELSE IF MODE = "C10" THEN StripTy(e) = StripTy(Rec2[l])
             ELSE e = Rec2[l]

-----------------------------------------------------------------------------
Init == /\ l = 1
        /\ slots = [s \in 0..(NSLOT - 1) |-> NoVal]
        /\ it = NoIter
        /\ poisoned = FALSE
        /\ nchk = 0 /\ nviol = 0 /\ nskip = 0
        /\ pcache = [n |-> 0, maps |-> PermMaps(0), seqs |-> {}]
        /\ bstart = 0
        /\ nkern = 0

StepOf(e) ==
     IF e.op = "reset" THEN
        /\ slots' = [s \in 0..(NSLOT - 1) |-> NoVal]
        /\ it' = NoIter
        /\ poisoned' = FALSE
        /\ UNCHANGED <<nchk, nviol, nskip, pcache, bstart, nkern>>
     ELSE IF poisoned THEN UNCHANGED <<slots, it, poisoned, nchk, nviol, nskip, pcache, bstart, nkern>>
     ELSE \E v0 \in {Verdict(e)} :
          \E v \in {IF v0.k = "ok" /\ ~DualOK(e) THEN Bad("second trace differs") ELSE v0} :
             /\ slots' = v.slots
             /\ it' = v.it
             /\ poisoned' = (v.k # "ok")
             /\ nchk' = nchk + (IF DUAL /\ v.k = "ok" THEN 1 ELSE v.chk)
             /\ nviol' = IF v.k = "viol" THEN nviol + 1 ELSE nviol
             /\ nskip' = IF v.k = "poison" THEN nskip + 1 ELSE nskip
             /\ IF v.k = "viol" THEN PrintT(<<"VIOL", l, e.op, v.why>>) ELSE TRUE
             /\ pcache' = v.pc
             /\ bstart' = IF e.op = "rand_begin" THEN l ELSE bstart
             /\ nkern' = nkern + (IF v.kern > 0 THEN 1 ELSE 0)
             /\ IF v.kern = 2 THEN PrintT(<<"DRIFT", l, e.op, e.k>>) ELSE TRUE

Step ==
  /\ l <= Len(Rec)
  /\ l' = l + 1
  /\ \E e \in {Rec[l]} : StepOf(e)

Finish == /\ l = Len(Rec) + 1
          /\ l' = l + 1
          /\ PrintT(<<"DONE", Len(Rec), nchk, nviol, nskip, nkern>>)
          /\ UNCHANGED <<slots, it, poisoned, nchk, nviol, nskip, pcache, bstart, nkern>>

Spec == Init /\ [][Step \/ Finish]_vars

\* The specification's own state is always well-formed: a failure here is an inconsistency of
\* the specification (tool error), never a finding about the code
SpecStateOK == \A s \in 0..(NSLOT - 1) : slots[s] = NoVal \/ slots[s].on \subseteq Dom(slots[s].n)
=============================================================================
