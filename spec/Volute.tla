------------------------------- MODULE Volute -------------------------------
(***************************************************************************)
(* The volute truth-table API as a state machine.                          *)
(*                                                                         *)
(* State: a file of slots (the values a client holds) and the state of the *)
(* `all_functions` iterator.  One action per public call; an action is     *)
(* described functionally by                                               *)
(*                                                                         *)
(*     Apply(e, S, it) = [out, w, r, it]                                   *)
(*                                                                         *)
(* where e is the call (operation name + arguments, the same record the    *)
(* harness logs), `out` the set of allowed outcomes ("ok", "panic", "err"),*)
(* `w` the slots written on success, `r` the set of allowed observables    *)
(* and `it` the new iterator state.  Bounded model-checking configurations *)
(* (mc/) and the trace specification (trace/) share these definitions.     *)
(*                                                                         *)
(* A call whose precondition fails panics and leaves every slot unchanged  *)
(* (C17); there is no build profile in the specification, so every build   *)
(* must show this one behaviour.                                           *)
(***************************************************************************)
EXTENDS Integers, FiniteSets, Sequences, TLC, BoolFn, Text, Canon, Bdd, TwoLevel, Optim

ToSet(s) == {s[x] : x \in 1..Len(s)}

Val(n, on) == [n |-> n, on |-> on]
NoVal == [n |-> 0 - 1, on |-> {}]
NumBlocks(n) == IF n <= 6 THEN 1 ELSE 2^(n - 6)
NoIter == [n |-> 0, cur |-> {}, ok |-> FALSE]
NoObs == "-"
NoW == <<>>

Ret(out, w, r, it) == [out |-> out, w |-> w, r |-> r, it |-> it]
Ok(w, r, it) == Ret({"ok"}, w, r, it)
Panic(it) == Ret({"panic"}, NoW, {NoObs}, it)
Guard(pre, w, r, it) == IF pre THEN Ok(w, r, it) ELSE Panic(it)

LogicFn(g, n, f1, f2) ==
  CASE g = "not" -> FnNot(n, f1)
    [] g = "and" -> FnAnd(f1, f2)
    [] g = "or" -> FnOr(f1, f2)
    [] g = "xor" -> FnXor(f1, f2)

RelObs(form, A, B) ==
  LET c == CmpLut(A.n, A.on, B.n, B.on) IN
  CASE form = "eq" -> {c = "eq"}
    [] form = "ne" -> {c # "eq"}
    [] form = "cmp" -> {c}
    [] form = "pcmp" -> {c}
    [] form = "lt" -> {c = "lt"}
    [] form = "le" -> {c # "gt"}
    [] form = "gt" -> {c = "gt"}
    [] form = "ge" -> {c # "lt"}
    [] form = "hasheq" -> IF c = "eq" THEN {TRUE} ELSE {TRUE, FALSE}   \* equal values hash equal
    [] form = "max" -> {IF c # "lt" THEN "a" ELSE "b"}
    [] form = "min" -> {IF c # "gt" THEN "a" ELSE "b"}

TextOf(form, n, f) ==
  CASE form = "hex" -> ToHex(n, f)
    [] form = "bin" -> ToBin(n, f)
    [] form \in {"display", "to_string", "lowerhex"} -> DisplayHex(n, f)
    [] form = "binary" -> DisplayBin(n, f)

\* BDD node count: textbook construction for small tables, slicing characterisation above
\* (the two are proved equal in mc/MC_Bdd)
BddCount(n, fs) == IF n <= 5 THEN RobddNodes(n, fs) ELSE SliceNodes(n, fs)

Apply(e, S, it) ==
  CASE e.op \in {"copy", "clone_from", "reload", "conv_rt"} -> Ok(e.d :> S[e.a], {NoObs}, it)
    [] e.op = "conv_try" ->
         IF e.n = S[e.a].n THEN Ok(e.d :> S[e.a], {NoObs}, it) ELSE Ret({"err"}, NoW, {NoObs}, it)
    [] e.op = "zero" -> Ok(e.d :> Val(e.n, {}), {NoObs}, it)
    [] e.op = "one" -> Ok(e.d :> Val(e.n, Dom(e.n)), {NoObs}, it)
    [] e.op = "default" -> Ok(e.d :> Val(IF e.ty = "lut" THEN 0 ELSE e.n, {}), {NoObs}, it)
    [] e.op = "parity" -> Ok(e.d :> Val(e.n, Parity(e.n)), {NoObs}, it)
    [] e.op = "majority" -> Ok(e.d :> Val(e.n, Majority(e.n)), {NoObs}, it)
    [] e.op = "nth_var" -> Guard(e.i < e.n, e.d :> Val(e.n, NthVar(e.n, e.i)), {NoObs}, it)
    [] e.op = "threshold" -> Ok(e.d :> Val(e.n, Threshold(e.n, e.k)), {NoObs}, it)
    [] e.op = "equals" -> Ok(e.d :> Val(e.n, Equals(e.n, e.k)), {NoObs}, it)
    [] e.op = "symmetric" -> Ok(e.d :> Val(e.n, Symmetric(e.n, ToSet(e.cb))), {NoObs}, it)
    [] e.op = "from_hex" ->
         IF ParseOK(e.n, e.s)
         THEN Ret(IF HasUpper(e.s) THEN {"ok", "err"} ELSE {"ok"},
                  e.d :> Val(e.n, ParsedSet(e.n, e.s)), {NoObs}, it)
         ELSE Ret({"err"}, NoW, {NoObs}, it)
    [] e.op = "logic" ->
         LET A == S[e.a]
             B == S[e.b]
         IN Guard(e.g = "not" \/ A.n = B.n, e.d :> Val(A.n, LogicFn(e.g, A.n, A.on, B.on)), {NoObs}, it)
    [] e.op = "flip" ->
         LET A == S[e.a] IN Guard(e.i < A.n, e.d :> Val(A.n, Flip(A.n, A.on, e.i)), {NoObs}, it)
    [] e.op = "swap" ->
         LET A == S[e.a] IN
         Guard(e.i < A.n /\ e.j < A.n, e.d :> Val(A.n, Swap(A.n, A.on, e.i, e.j)), {NoObs}, it)
    [] e.op = "swapadj" ->
         LET A == S[e.a] IN
         Guard(e.i + 1 < A.n, e.d :> Val(A.n, Swap(A.n, A.on, e.i, e.i + 1)), {NoObs}, it)
    [] e.op = "cofactors" ->
         LET A == S[e.a] IN
         Guard(e.i < A.n, (e.d0 :> Val(A.n, Cof0(A.n, A.on, e.i))) @@ (e.d1 :> Val(A.n, Cof1(A.n, A.on, e.i))),
               {NoObs}, it)
    [] e.op = "fromcof" ->
         LET A == S[e.a]
             B == S[e.b]
         IN Guard(A.n = B.n /\ e.i < A.n, e.d :> Val(A.n, FromCof(A.n, A.on, B.on, e.i)), {NoObs}, it)
    [] e.op = "setbit" ->
         LET A == S[e.a] IN
         Guard(e.m < 2^A.n,
               e.a :> Val(A.n, IF e.f \in {"set", "val1"} THEN A.on \cup {e.m} ELSE A.on \ {e.m}),
               {NoObs}, it)
    [] e.op = "value" -> LET A == S[e.a] IN Guard(e.m < 2^A.n, NoW, {e.m \in A.on}, it)
    [] e.op = "rel" -> Ok(NoW, RelObs(e.f, S[e.a], S[e.b]), it)
    [] e.op = "info" ->
         LET A == S[e.a] IN Ok(NoW, {[nv |-> A.n, nbits |-> 2^A.n, nblocks |-> NumBlocks(A.n)]}, it)
    [] e.op = "decomp" -> LET A == S[e.a] IN Guard(e.i < A.n, NoW, {DecompClass(A.n, A.on, e.i)}, it)
    [] e.op = "unate" ->
         LET A == S[e.a] IN
         Guard(e.i < A.n, NoW,
               {IF e.f = "pos" THEN PosUnate(A.n, A.on, e.i) ELSE NegUnate(A.n, A.on, e.i)}, it)
    [] e.op = "text" -> LET A == S[e.a] IN Ok(NoW, {TextOf(e.f, A.n, A.on)}, it)
    [] e.op = "bdd" ->
         LET xs == ToSet(e.xs) IN
         IF xs = {} THEN Ok(NoW, {0}, it)
         ELSE LET n0 == S[e.xs[1]].n IN
              Guard(\A x \in xs : S[x].n = n0, NoW, {BddCount(n0, {S[x].on : x \in xs})}, it)
    [] e.op = "iter_start" -> Ok(NoW, {NoObs}, [n |-> e.n, cur |-> {}, ok |-> TRUE])
    [] e.op = "iter_next" ->
         IF it.ok
         THEN LET s == Succ(it.n, it.cur) IN
              Ok(e.d :> Val(it.n, it.cur), {"some"}, [n |-> it.n, cur |-> s.on, ok |-> s.ok])
         ELSE Ok(NoW, {"none"}, it)
    [] e.op = "iter_count" ->     \* a complete run: 2^(2^n) items (as a set of bit positions), the last one constant one
         Ok(e.d :> Val(e.n, Dom(e.n)), {[count |-> <<2^e.n>>]}, it)
    [] e.op = "vnext" ->
         LET A == S[e.a]
             s == Succ(A.n, A.on)
         IN Ok(e.a :> Val(A.n, s.on), {s.ok}, it)

\* Canonization is specified by a predicate on the result (the representative is determined,
\* the certificate is not: any valid one is allowed)
CanonResultOK(kind, n, f, res) == res = OrbitMin(kind, n, f)

\* Well-formedness of the representation (C02) is a property of the logged block view
=============================================================================
