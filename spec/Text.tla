-------------------------------- MODULE Text --------------------------------
(***************************************************************************)
(* Text forms of truth tables (C09).  Strings are sequences of byte values *)
(* (TLC has no character type); the harness logs `s.as_bytes()`.           *)
(***************************************************************************)
EXTENDS Naturals, FiniteSets, Sequences, BoolFn

HexWidth(n) == IF n <= 2 THEN 1 ELSE 2^(n - 2)
BinWidth(n) == 2^n

DigitByte(v) == IF v < 10 THEN 48 + v ELSE 87 + v            \* '0'..'9', 'a'..'f'
IsLowerHex(b) == (b >= 48 /\ b <= 57) \/ (b >= 97 /\ b <= 102)
IsUpperHex(b) == b >= 65 /\ b <= 70
IsHexByte(b) == IsLowerHex(b) \/ IsUpperHex(b)
HexVal(b) == IF b <= 57 THEN b - 48 ELSE IF b <= 70 THEN b - 55 ELSE b - 87

\* value of the hex digit covering table bits 4q .. 4q+3
Nibble(f, q) == (IF 4 * q \in f THEN 1 ELSE 0) + (IF 4 * q + 1 \in f THEN 2 ELSE 0)
              + (IF 4 * q + 2 \in f THEN 4 ELSE 0) + (IF 4 * q + 3 \in f THEN 8 ELSE 0)

\* most significant digit first, fixed width
ToHex(n, f) == LET w == HexWidth(n) IN [d \in 1..w |-> DigitByte(Nibble(f, w - d))]
ToBin(n, f) == LET w == BinWidth(n) IN [d \in 1..w |-> IF (w - d) \in f THEN 49 ELSE 48]

RECURSIVE DecBytes(_)
DecBytes(k) == IF k < 10 THEN <<48 + k>> ELSE DecBytes(k \div 10) \o <<48 + (k % 10)>>
\* "Lut<n>(" ... ")"
Wrap(n, body) == <<76, 117, 116>> \o DecBytes(n) \o <<40>> \o body \o <<41>>
DisplayHex(n, f) == Wrap(n, ToHex(n, f))
DisplayBin(n, f) == Wrap(n, ToBin(n, f))

\* Parsing: exactly HexWidth(n) hex digits whose value fits in 2^n bits
ParseShapeOK(n, s) == Len(s) = HexWidth(n) /\ \A d \in 1..Len(s) : IsHexByte(s[d])
ParsedSet(n, s) ==           \* all table bits denoted by the digits (may exceed 2^n for n < 2)
  LET w == Len(s) IN
  UNION {{4 * (w - d) + b : b \in {c \in 0..3 : (HexVal(s[d]) \div 2^c) % 2 = 1}} : d \in 1..w}
ParseOK(n, s) == ParseShapeOK(n, s) /\ ParsedSet(n, s) \subseteq Dom(n)
HasUpper(s) == \E d \in 1..Len(s) : IsUpperHex(s[d])

=============================================================================
