------------------------------- MODULE Kernels -------------------------------
(***************************************************************************)
(* Implementation-shaped layer: a transcription of operations.rs,          *)
(* decomposition.rs and bdd.rs at the level the code works - tables are    *)
(* sequences of machine words, with masks, shifts, real `+` (wrapping,     *)
(* with the overflow condition named), per-word loops and the three        *)
(* storage regimes of swap.                                                *)
(*                                                                         *)
(* The transcription is PARAMETRIC IN THE WORD SIZE W = 2^K (the code has  *)
(* K = 6): every `6`, `5`, `64`, `0x3f` and constant mask of the code is   *)
(* written as a function of K.  A word is a natural number < 2^W, so the   *)
(* model-checking configurations use K = 2, 3 (4-bit and 8-bit words),     *)
(* where a 4-variable table already spans several words and ALL tables can *)
(* be enumerated; mc/MC_Kernels checks that every kernel refines the       *)
(* denotational operator of BoolFn.tla and preserves well-formedness.      *)
(* The constant tables of the code (VAR_MASK, NUM_VARS_MASK,               *)
(* SWAP_INPUT_MASKS, COUNT_MASKS) are defined here by comprehension; the   *)
(* literal K = 6 tables of the code are compared with these definitions    *)
(* through the `constants` hook (trace event `consts`).                    *)
(***************************************************************************)
EXTENDS Integers, FiniteSets, Sequences, TLC, BoolFn
LOCAL INSTANCE Bitwise
LOCAL SQK == INSTANCE SequencesExt
LOCAL FSK == INSTANCE FiniteSetsExt

CONSTANT K
W == 2^K
AllOnes == 2^W - 1

\* word arithmetic
WNot(x) == AllOnes - x
Shl(x, s) == IF s >= W THEN 0 ELSE (x % 2^(W - s)) * 2^s        \* bits shifted out are lost
Shr(x, s) == IF s >= W THEN 0 ELSE x \div 2^s
AddOverflows(a, b) == a + b >= 2^W                                \* what overflow checks panic on
\* every `+` of the bit-manipulation kernels adds words with disjoint bits (so it cannot carry or
\* overflow and behaves as `|`): the model checker fails with this message if one ever does not
AddW(a, b) == IF Assert((a & b) = 0 /\ ~AddOverflows(a, b), <<"add with carry", a, b>>) THEN a + b ELSE 0
IncW(a) == (a + 1) % 2^W                                          \* wrapping_add(1)
WBit(x, b) == (x \div 2^b) % 2 = 1
SumSet(S) == FSK!FoldSet(LAMBDA x, acc : x + acc, 0, S)
WordOf(bits) == SumSet({2^b : b \in bits})                        \* word with exactly these bits
BitsOf(x) == {b \in 0..(W - 1) : WBit(x, b)}

\* constant tables, by comprehension
\* (as sets of bit positions first: these are what the `consts` trace event compares, at K = 6,
\* with the literal tables of the code)
VarMaskBits(i) == {b \in 0..(W - 1) : Bit(b, i)}                  \* VAR_MASK[i], i < K
NumVarsMaskBits(n) == 0..(2^n - 1)                                \* NUM_VARS_MASK[n], n <= K
SwapMaskBits(i, j) == IF i > j THEN {b \in 0..(W - 1) : Bit(b, j) /\ ~Bit(b, i)} ELSE {}  \* SWAP_INPUT_MASKS[i][j]
CountMaskBits(c) == {b \in 0..(W - 1) : PopCount(b) = c}          \* COUNT_MASKS[c], c <= K
VarMask(i) == WordOf(VarMaskBits(i))
NumVarsMaskAt(n) == WordOf(NumVarsMaskBits(n))
NumVarsMask(n) == NumVarsMaskAt(IF n < K THEN n ELSE K)           \* num_vars_mask
SwapMask(i, j) == WordOf(SwapMaskBits(i, j))
CountMask(c) == WordOf(CountMaskBits(c))

TableSize(n) == IF n > K THEN 2^(n - K) ELSE 1
Tab(n) == [1..TableSize(n) -> 0..AllOnes]                         \* all block vectors (well-formed or not)
WellFormed(n, t) == Len(t) = TableSize(n) /\ \A k \in 1..Len(t) : (t[k] & WNot(NumVarsMask(n))) = 0
WFTabs(n) == {t \in Tab(n) : WellFormed(n, t)}

\* abstraction: the on-set denoted by a block vector (global bit index W*(k-1) + b)
Abs(n, t) == {m \in Dom(n) : WBit(t[(m \div W) + 1], m % W)}
\* packing (inverse of Abs on well-formed tables)
Pack(n, f) == [k \in 1..TableSize(n) |-> WordOf({b \in 0..(W - 1) : (W * (k - 1) + b) \in f})]

MapW(t, F(_)) == [k \in 1..Len(t) |-> F(t[k])]

-----------------------------------------------------------------------------
(* fill_* *)
FillOne(n) == [k \in 1..TableSize(n) |-> NumVarsMask(n)]
FillZero(n) == [k \in 1..TableSize(n) |-> 0]
FillNthVar(n, ind) ==
  IF ind < K THEN [k \in 1..TableSize(n) |-> VarMask(ind) & NumVarsMask(n)]
  ELSE LET mask == 2^(ind - K) IN
       [k \in 1..TableSize(n) |-> IF ((k - 1) & mask) # 0 THEN AllOnes ELSE 0]
\* count_values is given as the set C of its set bit positions (a usize in the code)
FillSymmetric(n, C) ==
  [k \in 1..TableSize(n) |->
     LET cnt == PopCount(k - 1)
         acc == SQK!FoldLeft(LAMBDA a, c : IF (cnt + c) \in C THEN a | CountMask(c) ELSE a, 0, [c \in 1..(K + 1) |-> c - 1])
     IN acc & NumVarsMask(n)]
FillParity(n) == FillSymmetric(n, {c \in 0..(W + K) : c % 2 = 1})
FillEquals(n, k) == IF k > n THEN FillZero(n) ELSE FillSymmetric(n, {k})
FillThreshold(n, k) ==
  IF k = 0 THEN FillOne(n) ELSE IF k > n THEN FillZero(n) ELSE FillSymmetric(n, {c \in 0..(W + K) : c >= k})
FillMajority(n) == FillThreshold(n, (n + 1) \div 2)

GetBit(t, ind) == (t[(ind \div W) + 1] & 2^(ind % W)) # 0
SetBitK(t, ind) == [t EXCEPT ![(ind \div W) + 1] = @ | 2^(ind % W)]
UnsetBitK(t, ind) == [t EXCEPT ![(ind \div W) + 1] = @ & WNot(2^(ind % W))]

(* logic *)
NotK(n, t) == MapW(t, LAMBDA x : NumVarsMask(n) & WNot(x))
AndK(t1, t2) == [k \in 1..Len(t1) |-> t1[k] & t2[k]]
OrK(t1, t2) == [k \in 1..Len(t1) |-> t1[k] | t2[k]]
XorK(t1, t2) == [k \in 1..Len(t1) |-> t1[k] ^^ t2[k]]

\* cmp: lexicographic on the reversed word sequences (most significant word first)
CmpK(t1, t2) ==
  LET diff == {k \in 1..Len(t1) : t1[k] # t2[k]} IN
  IF diff = {} THEN "eq" ELSE LET k == Max(diff) IN IF t1[k] < t2[k] THEN "lt" ELSE "gt"

-----------------------------------------------------------------------------
(* swap / flip / cofactors.  Every `+` of the code is AddW (checked carry-free, see above). *)
SwapK(n, t, ind1, ind2) ==
  IF ind1 = ind2 THEN t
  ELSE
  LET i == IF ind1 > ind2 THEN ind1 ELSE ind2
      j == IF ind1 > ind2 THEN ind2 ELSE ind1
  IN
  IF i < K THEN
     LET shift == 2^i - 2^j
         ml == SwapMask(i, j)
         mr == Shl(ml, shift)
     IN MapW(t, LAMBDA x : AddW(AddW(x & WNot(ml) & WNot(mr), Shl(x & ml, shift)), Shr(x & mr, shift)))
  ELSE IF j < K THEN
     LET mi == 2^(i - K)
         mask == VarMask(j)
         shift == 2^j
     IN [k \in 1..Len(t) |->
           LET k0 == k - 1 IN
           IF (k0 & mi) = 0
           THEN \* table[k] = t00 + (t10 << shift)
                AddW(t[k] & WNot(mask), Shl(t[k + mi] & WNot(mask), shift))
           ELSE \* table[k + mi] = t01 + (t11 << shift), seen from the upper word
                AddW(Shr(t[k - mi] & mask, shift), Shl(Shr(t[k] & mask, shift), shift))]
  ELSE
     LET mi == 2^(i - K)
         mj == 2^(j - K)
     IN [k \in 1..Len(t) |->
           LET k0 == k - 1 IN
           IF (k0 & mi) = 0 /\ (k0 & mj) # 0 THEN t[k - mj + mi]
           ELSE IF (k0 & mi) # 0 /\ (k0 & mj) = 0 THEN t[k + mj - mi]
           ELSE t[k]]

FlipK(n, t, ind) ==
  IF ind < K THEN
     LET shift == 2^ind IN
     MapW(t, LAMBDA x : AddW(Shr(x & VarMask(ind), shift), Shl(x & WNot(VarMask(ind)), shift)))
  ELSE LET stride == 2^(ind - K) IN
       [k \in 1..Len(t) |-> IF ((k - 1) & stride) = 0 THEN t[k + stride] ELSE t[k - stride]]

Cofactor0K(n, t, ind) ==
  IF ind < K THEN
     LET shift == 2^ind
         m0 == WNot(VarMask(ind))
     IN MapW(t, LAMBDA x : AddW(x & m0, Shl(x & m0, shift)))
  ELSE LET stride == 2^(ind - K) IN
       [k \in 1..Len(t) |-> IF ((k - 1) & stride) = 0 THEN t[k] ELSE t[k - stride]]

Cofactor1K(n, t, ind) ==
  IF ind < K THEN
     LET shift == 2^ind
         m1 == VarMask(ind)
     IN MapW(t, LAMBDA x : AddW(Shr(x & m1, shift), x & m1))
  ELSE LET stride == 2^(ind - K) IN
       [k \in 1..Len(t) |-> IF ((k - 1) & stride) = 0 THEN t[k + stride] ELSE t[k]]

FromCofactorsK(n, t0, t1, ind) ==
  IF ind < K THEN
     [k \in 1..Len(t0) |-> AddW(t1[k] & VarMask(ind), t0[k] & WNot(VarMask(ind)))]
  ELSE LET stride == 2^(ind - K) IN
       [k \in 1..Len(t0) |-> IF ((k - 1) & stride) = 0 THEN t0[k] ELSE t1[k]]

-----------------------------------------------------------------------------
(* successor (all_functions).  The code, for each word from low to high: add 1 and mask; stop *)
(* (returning true) at the first word that is not zero afterwards.  NextOverflow names the    *)
(* condition on which a checked addition would panic (the repaired code wraps).              *)
NextK(n, t) ==
  LET mask == NumVarsMask(n)
      \* index of the first word that does not wrap to zero, or 0 if all wrap
      stops == {k \in 1..Len(t) : (IncW(t[k]) & mask) # 0}
      stop == IF stops = {} THEN 0 ELSE Min(stops)
  IN [tab |-> [k \in 1..Len(t) |-> IF stop = 0 \/ k < stop THEN 0
                                   ELSE IF k = stop THEN IncW(t[k]) & mask ELSE t[k]],
      ok |-> stop # 0]
NextOverflow(n, t) ==        \* some visited word is all ones
  LET mask == NumVarsMask(n)
      stops == {k \in 1..Len(t) : (IncW(t[k]) & mask) # 0}
      last == IF stops = {} THEN Len(t) ELSE Min(stops)
  IN \E k \in 1..last : AddOverflows(t[k], 1)

-----------------------------------------------------------------------------
(* text *)
HexStrSize(n) == IF n >= K THEN W \div 4 ELSE IF n <= 2 THEN 1 ELSE 2^(n - 2)
HexDigitsOfWord(x, width) == [d \in 1..width |-> LET v == (x \div 16^(width - d)) % 16 IN IF v < 10 THEN 48 + v ELSE 87 + v]
\* format!("{:0width$x}") pads to AT LEAST width digits
MinHexDigits(x) == IF x = 0 THEN 1 ELSE Min({d \in 1..(W \div 4 + 1) : x < 16^d})
FmtHexWord(x, width) == HexDigitsOfWord(x, IF MinHexDigits(x) > width THEN MinHexDigits(x) ELSE width)
ToHexK(n, t) == SQK!FoldLeft(LAMBDA acc, k : acc \o FmtHexWord(t[Len(t) + 1 - k], HexStrSize(n)), <<>>, [k \in 1..Len(t) |-> k])
BinWidthK(n) == IF n >= K THEN W ELSE 2^n
FmtBinWord(x, width) == LET nd == IF x = 0 THEN 1 ELSE Min({d \in 1..(W + 1) : x < 2^d})
                            w == IF nd > width THEN nd ELSE width
                        IN [d \in 1..w |-> IF WBit(x, w - d) THEN 49 ELSE 48]
ToBinK(n, t) == SQK!FoldLeft(LAMBDA acc, k : acc \o FmtBinWord(t[Len(t) + 1 - k], BinWidthK(n)), <<>>, [k \in 1..Len(t) |-> k])

IsHexDigitByte(b) == (b >= 48 /\ b <= 57) \/ (b >= 97 /\ b <= 102) \/ (b >= 65 /\ b <= 70)
HexValByte(b) == IF b <= 57 THEN b - 48 ELSE IF b <= 70 THEN b - 55 ELSE b - 87
ChunkValue(s, lo, width) == SQK!FoldLeft(LAMBDA acc, d : acc * 16 + HexValByte(s[lo + d - 1]), 0, [d \in 1..width |-> d])
\* fill_hex as repaired: only hex digits, exact length, every chunk within the size mask
FillHexK(n, s) ==
  LET width == HexStrSize(n)
      nw == TableSize(n)
  IN IF ~(\A d \in 1..Len(s) : IsHexDigitByte(s[d])) THEN [ok |-> FALSE, tab |-> <<>>]
     ELSE IF Len(s) # width * nw THEN [ok |-> FALSE, tab |-> <<>>]
     ELSE LET tab == [k \in 1..nw |-> ChunkValue(s, (nw - k) * width + 1, width)]
          IN IF \E k \in 1..nw : (tab[k] & WNot(NumVarsMask(n))) # 0 THEN [ok |-> FALSE, tab |-> <<>>]
             ELSE [ok |-> TRUE, tab |-> tab]

-----------------------------------------------------------------------------
(* decomposition.rs *)
\* op: one of the eight predicates, as a function of the two cofactor words
PredWord(op, c0, c1) ==
  CASE op = "indep" -> WNot(c0 ^^ c1)
    [] op = "and" -> WNot(c0)
    [] op = "or" -> c1
    [] op = "nand" -> c0
    [] op = "nor" -> WNot(c1)
    [] op = "xor" -> c0 ^^ c1
    [] op = "pos" -> WNot(c0) | c1
    [] op = "neg" -> WNot(c1) | c0
InputProperty(n, t, ind, op) ==
  LET mask == NumVarsMask(n) IN
  IF ind < K THEN
     LET shift == 2^ind
         m1 == VarMask(ind)
         m0 == WNot(VarMask(ind))
     IN \A k \in 1..Len(t) :
          LET c1 == Shr(t[k] & m1, shift) | (t[k] & m1)
              c0 == Shl(t[k] & m0, shift) | (t[k] & m0)
          IN (WNot(PredWord(op, c0, c1)) & mask) = 0
  ELSE LET stride == 2^(ind - K) IN
       \A k \in 1..Len(t) : ((k - 1) & stride) = 0 => (WNot(PredWord(op, t[k], t[k + stride])) & mask) = 0
TopDecompositionK(n, t, ind) ==
  LET P(op) == InputProperty(n, t, ind, op) IN
  IF P("indep") THEN "Independent"
  ELSE IF P("and") /\ P("or") THEN "Identity"
  ELSE IF P("nand") /\ P("nor") THEN "Negation"
  ELSE IF P("and") THEN "And"
  ELSE IF P("or") THEN "Or"
  ELSE IF P("nand") THEN "Le"
  ELSE IF P("nor") THEN "Lt"
  ELSE IF P("xor") THEN "Xor"
  ELSE "None"

-----------------------------------------------------------------------------
(* bdd.rs: per-level counting over the concatenated tables *)
\* level < K: sub-tables of 2^(level+1) bits inside the words
LevelComplexity(tab, level) ==
  LET shift == 2^(level + 1)
      mask == 2^shift - 1
      midShift == 2^level
      midMask == 2^midShift - 1
      pieces == {Shr(tab[k], p * shift) & mask : k \in 1..Len(tab), p \in 0..((W \div shift) - 1)}
      norm == {(IF (c & 1) # 0 THEN WNot(c) ELSE c) & mask : c \in pieces} \ {0}
      keep == {c \in norm :
                 LET h == Shr(c, midShift)
                     lo == c & midMask
                 IN ~(lo = h) /\ ~(lo = (WNot(h) & midMask) /\ (lo = 0 \/ h = 0))}
  IN Cardinality(keep)
\* level >= K: sub-tables of 2^(level-K+1) whole words
LargeLevelComplexity(tab, level) ==
  LET nb == 2^(level - K + 1)
      midNb == 2^(level - K)
      starts == {i \in 1..Len(tab) : (i - 1) % nb = 0}
      piece(i) == [k \in 1..nb |-> tab[i + k - 1]]
      normp(c) == IF (c[1] & 1) # 0 THEN [k \in 1..nb |-> WNot(c[k])] ELSE c
      norm == {normp(piece(i)) : i \in starts} \ {[k \in 1..nb |-> 0]}
      keep == {c \in norm :
                 LET lo == [k \in 1..midNb |-> c[k]]
                     h == [k \in 1..midNb |-> c[midNb + k]]
                     opp == \A k \in 1..midNb : lo[k] = WNot(h[k])
                     lz == \A k \in 1..midNb : lo[k] = 0
                     hz == \A k \in 1..midNb : h[k] = 0
                 IN ~(lo = h) /\ ~(opp /\ (lz \/ hz))}
  IN Cardinality(keep)
\* tabs: sequence of block vectors (one per function)
TableComplexity(n, tabs) ==
  LET cat == SQK!FoldLeft(LAMBDA acc, t : acc \o t, <<>>, tabs)
      lv(k) == IF k < K THEN LevelComplexity(cat, k) ELSE LargeLevelComplexity(cat, k)
  IN SQK!FoldLeft(LAMBDA acc, k : acc + lv(k), 0, [k \in 1..(n - 1) |-> k])

=============================================================================
