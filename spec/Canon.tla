-------------------------------- MODULE Canon --------------------------------
(***************************************************************************)
(* P / N / NPN canonization (C04, C05).                                    *)
(*                                                                         *)
(*  - predicates on the swap / flip sequences a walk is given: closed      *)
(*    cycles visiting every group element exactly once;                    *)
(*  - the walks themselves as step machines, transcribed from              *)
(*    canonization.rs (`*_canonization_ind` and `*_canonization_res`),     *)
(*    parametric in the sequences;                                         *)
(*  - certificate validity.                                                *)
(* The orbit minimum itself is BoolFn!OrbitMin.                            *)
(***************************************************************************)
EXTENDS Naturals, FiniteSets, Sequences, BoolFn
LOCAL INSTANCE Bitwise

RECURSIVE Fact(_)
Fact(n) == IF n <= 1 THEN 1 ELSE n * Fact(n - 1)

SwapAdjPerm(p, s) == [p EXCEPT ![s + 1] = p[s + 2], ![s + 2] = p[s + 1]]

\* Positions visited by the prefixes lo..hi of a swap sequence starting from `start`
RECURSIVE PermSpan(_, _, _, _)
PermSpan(sw, lo, hi, start) ==
  IF lo = hi THEN LET p == SwapAdjPerm(start, sw[lo]) IN [end |-> p, seen |-> {p}]
  ELSE LET mid == (lo + hi) \div 2
           L == PermSpan(sw, lo, mid, start)
           R == PermSpan(sw, mid + 1, hi, L.end)
       IN [end |-> R.end, seen |-> L.seen \cup R.seen]

\* n! adjacent swaps, every prefix product distinct, the last one the identity: the walk
\* (which compares AFTER each swap) sees every ordering of the inputs exactly once
IsHamiltonianSwapCycle(sw, n) ==
  IF n <= 1 THEN sw = <<>>
  ELSE /\ Len(sw) = Fact(n)
       /\ \A k \in 1..Len(sw) : sw[k] \in 0..(n - 2)
       /\ LET sp == PermSpan(sw, 1, Len(sw), IdPerm(n))
          IN sp.end = IdPerm(n) /\ Cardinality(sp.seen) = Len(sw)

RECURSIVE MaskSpan(_, _, _, _)
MaskSpan(fl, lo, hi, start) ==
  IF lo = hi THEN LET m == start ^^ (2^(fl[lo])) IN [end |-> m, seen |-> {m}]
  ELSE LET mid == (lo + hi) \div 2
           L == MaskSpan(fl, lo, mid, start)
           R == MaskSpan(fl, mid + 1, hi, L.end)
       IN [end |-> R.end, seen |-> L.seen \cup R.seen]

\* 2^n single-variable flips, every prefix polarity distinct, the last one all-positive
IsGrayCycle(fl, n) ==
  IF n = 0 THEN fl = <<>>
  ELSE /\ Len(fl) = 2^n
       /\ \A k \in 1..Len(fl) : fl[k] \in 0..(n - 1)
       /\ LET sp == MaskSpan(fl, 1, Len(fl), 0)
          IN sp.end = 0 /\ Cardinality(sp.seen) = Len(fl)

-----------------------------------------------------------------------------
(* The sequences as canonization.rs generates them for n >= 7 (generate_gray_flips and        *)
(* generate_swaps with rollback); the hard-coded tables for n <= 6 are observed through the   *)
(* walk hook and checked against the predicates above on every recorded call.                 *)
Gray(i) == i ^^ (i \div 2)
TrailingZeros(x) == Min({b \in 0..30 : Bit(x, b)})
GenGrayFlips(n) ==
  IF n = 0 THEN <<>>
  ELSE [k \in 1..(2^n) |-> IF k = 2^n THEN n - 1 ELSE TrailingZeros(Gray(k - 1) ^^ Gray(k))]

InsertAt(p, j, v) == [i \in 1..(Len(p) + 1) |-> IF i <= j THEN p[i] ELSE IF i = j + 1 THEN v ELSE p[i - 1]]
RECURSIVE SSPerms(_)
SSPerms(n) ==      \* generate_single_swap_permutations
  IF n = 0 THEN << <<>> >>
  ELSE IF n = 1 THEN << <<0>> >>
  ELSE IF n = 2 THEN << <<1, 0>>, <<0, 1>> >>
  ELSE LET prev == SSPerms(n - 1)
           m == Len(prev)
       IN Concrete([k \in 1..(m * n) |->
             LET i == (k - 1) \div n
                 r == (k - 1) % n
                 j == IF i % 2 = 0 THEN r ELSE (n - 1) - r
             IN Concrete(InsertAt(prev[i + 1], j, n - 1))])
FirstDiff(p1, p2) == Min({i \in 1..Len(p1) : p1[i] # p2[i]}) - 1       \* find_permutation_swap
GenSwaps(n) ==
  LET perms == SSPerms(n)
      m == Len(perms)
  IN IF m <= 1 THEN <<>>
     ELSE [k \in 1..m |-> FirstDiff(perms[k], perms[IF k = m THEN 1 ELSE k + 1])]

-----------------------------------------------------------------------------
(* Certificates (C05) *)
CertShapeOK(kind, n, perm, mask) ==
  /\ IsPerm(n, perm)
  /\ mask \subseteq 0..n
  /\ kind = "p" => mask = {}
  /\ kind = "n" => perm = IdPerm(n)
CertOK(kind, n, f, res, perm, mask) ==
  /\ CertShapeOK(kind, n, perm, mask)
  /\ ApplyCert(n, f, perm, mask) = res

-----------------------------------------------------------------------------
(* The walks as the code performs them.  A walk state is                           *)
(*   [tab, best, bestInd, ind]                                                     *)
(* bestInd = -1 ("none") is the repaired convention: no strictly smaller table     *)
(* seen yet, i.e. the input itself is the best so far.                             *)
(* One `visit` = the code's `if cmp(table, best).is_lt() { best_ind = ind; ... }`. *)
Visit(st, tab) ==
  IF Less(tab, st.best)
  THEN [tab |-> tab, best |-> tab, bestInd |-> st.ind, ind |-> st.ind + 1]
  ELSE [tab |-> tab, best |-> st.best, bestInd |-> st.bestInd, ind |-> st.ind + 1]

WalkInit(f) == [tab |-> f, best |-> f, bestInd |-> 0 - 1, ind |-> 0]

RECURSIVE PWalk(_, _, _, _)
PWalk(n, sw, k, st) ==
  IF k > Len(sw) THEN st
  ELSE PWalk(n, sw, k + 1, Visit(st, Swap(n, st.tab, sw[k], sw[k] + 1)))

\* one flip followed by the two output polarities
FlipStep(n, st, v) ==
  LET t1 == FnNot(n, Flip(n, st.tab, v))
      s1 == Visit(st, t1)
  IN Visit(s1, FnNot(n, t1))

RECURSIVE NWalk(_, _, _, _)
NWalk(n, fl, k, st) ==
  IF k > Len(fl) THEN st ELSE NWalk(n, fl, k + 1, FlipStep(n, st, fl[k]))

RECURSIVE NPNWalk(_, _, _, _, _)
NPNWalk(n, sw, fl, k, st) ==
  IF k > Len(sw) THEN st
  ELSE LET s0 == [st EXCEPT !.tab = Swap(n, st.tab, sw[k], sw[k] + 1)]
       IN NPNWalk(n, sw, fl, k + 1, NWalk(n, fl, 1, s0))

\* witness decoding: replay the sequences up to and including step bestInd
RECURSIVE PDecode(_, _, _, _)
PDecode(sw, k, perm, bestInd) ==   \* k: 1-based index of the swap about to be applied
  IF bestInd < 0 THEN perm
  ELSE LET p == SwapAdjPerm(perm, sw[k]) IN
       IF k - 1 = bestInd THEN p ELSE PDecode(sw, k + 1, p, bestInd)

\* mask after visiting index bestInd of the N walk: flips 1..(bestInd \div 2 + 1), output
\* complemented iff bestInd is even
NDecode(n, fl, bestInd) ==
  IF bestInd < 0 THEN {}
  ELSE LET q == bestInd \div 2 + 1
           m == MaskSpan(fl, 1, q, 0).end
       IN {i \in 0..(n - 1) : Bit(m, i)} \cup (IF bestInd % 2 = 0 THEN {n} ELSE {})

NPNDecode(n, sw, fl, bestInd) ==
  IF bestInd < 0 THEN [perm |-> IdPerm(n), mask |-> {}]
  ELSE LET per == 2 * Len(fl)                 \* visits per swap
           ks == bestInd \div per + 1         \* number of swaps applied
           r == bestInd % per
       IN [perm |-> PermSpan(sw, 1, ks, IdPerm(n)).end, mask |-> NDecode(n, fl, r)]

=============================================================================
