--------------------------------- MODULE Bdd ---------------------------------
(***************************************************************************)
(* C07: size of the shared reduced ordered BDD with complemented edges,    *)
(* variable n-1 at the root, variable 0 at the bottom, nodes denoting a    *)
(* single literal not counted.                                             *)
(*                                                                         *)
(* Two denotational definitions, proved equal by TLC on small sizes        *)
(* (mc/MC_Bdd):                                                            *)
(*  RobddNodes : the textbook construction - Shannon expansion from the    *)
(*               roots on the top variable of the support, with a unique   *)
(*               table keyed by the function up to complement;             *)
(*  SliceNodes : the classical characterisation - the nodes labelled x_k   *)
(*               are the distinct (up to complement) sub-functions         *)
(*               f|x_{n-1}=a_{n-1},...,x_{k+1}=a_{k+1} that depend on x_k. *)
(* Sub-functions of the variables 0..k are on-sets over Dom(k+1).          *)
(***************************************************************************)
EXTENDS Naturals, FiniteSets, Sequences, BoolFn

\* complement edges: the representative of {g, not g} is the one false on the all-zeros assignment
Norm(k, g) == IF 0 \in g THEN Dom(k) \ g ELSE g

\* g over variables 0..k-1 (on-set within Dom(k)), k >= 1
Lo(k, g) == {m \in g : m < 2^(k - 1)}
Hi(k, g) == {m - 2^(k - 1) : m \in {x \in g : x >= 2^(k - 1)}}
DependsOnTop(k, g) == Lo(k, g) # Hi(k, g)
IsTopLiteral(k, g) == (Lo(k, g) = {} /\ Hi(k, g) = Dom(k - 1)) \/ (Hi(k, g) = {} /\ Lo(k, g) = Dom(k - 1))

-----------------------------------------------------------------------------
(* Textbook construction.  A node is a pair <<k, g>>: normalised non-constant        *)
(* function g of variables 0..k-1 that depends on x_{k-1}.  Reduce(k, g) skips the    *)
(* variables g does not depend on; the empty tuple stands for the terminal.           *)
RECURSIVE Reduce(_, _)
Reduce(k, g) ==
  LET h == Norm(k, g) IN
  IF h = {} THEN <<>>
  ELSE IF DependsOnTop(k, h) THEN <<k, h>> ELSE Reduce(k - 1, Lo(k, h))

Children(node) == {Reduce(node[1] - 1, Lo(node[1], node[2])), Reduce(node[1] - 1, Hi(node[1], node[2]))} \ {<<>>}

RECURSIVE Unique(_, _)
Unique(todo, table) ==       \* closure of the unique table under Children
  IF todo = {} THEN table
  ELSE LET new == (UNION {Children(x) : x \in todo}) \ table
       IN Unique(new, table \cup new)

RobddNodes(n, fs) ==         \* fs: set (or any collection turned into a set) of on-sets over Dom(n)
  LET roots == {Reduce(n, f) : f \in fs} \ {<<>>}
      table == Unique(roots, roots)
  IN Cardinality({x \in table : ~IsTopLiteral(x[1], x[2])})

-----------------------------------------------------------------------------
(* Slicing characterisation *)
RECURSIVE SliceFrom(_, _)
SliceFrom(k, subs) ==        \* subs: set of normalised non-zero sub-functions over Dom(k)
  IF k = 0 \/ subs = {} THEN 0
  ELSE LET dep == {g \in subs : DependsOnTop(k, g)}
           here == Cardinality({g \in dep : ~IsTopLiteral(k, g)})
           down == {Norm(k - 1, Lo(k, g)) : g \in subs} \cup {Norm(k - 1, Hi(k, g)) : g \in dep}
       IN here + SliceFrom(k - 1, down \ {{}})

SliceNodes(n, fs) == SliceFrom(n, {Norm(n, f) : f \in fs} \ {{}})

=============================================================================
