------------------------------- MODULE BoolFn -------------------------------
(***************************************************************************)
(* Denotational semantics of n-variable Boolean functions.                 *)
(*                                                                         *)
(* A function of n variables is its ON-SET: the set of assignments         *)
(* m \in 0..2^n-1 (bit i of m is the value of variable x_i) on which it is  *)
(* true.  Every operator below is written straight from the statement of   *)
(* the property it serves, never from the code: it is the oracle against   *)
(* which the implementation-shaped layer (Kernels.tla) and the real code   *)
(* (through traces) are compared.                                          *)
(***************************************************************************)
EXTENDS Naturals, FiniteSets, Sequences
LOCAL INSTANCE Bitwise          \* a & b, a | b, a ^^ b on assignment indices (Java overrides)
LOCAL FSE == INSTANCE FiniteSetsExt
LOCAL INSTANCE TLC

Dom(n) == 0..(2^n - 1)
IsFn(n, f) == f \subseteq Dom(n)

Bit(m, i) == (m \div 2^i) % 2 = 1
FlipBit(m, i) == m ^^ (2^i)
SwapBits(m, i, j) == IF Bit(m, i) = Bit(m, j) THEN m ELSE m ^^ (2^i + 2^j)
SetBit(m, i) == IF Bit(m, i) THEN m ELSE m + 2^i
ClrBit(m, i) == IF Bit(m, i) THEN m - 2^i ELSE m

RECURSIVE PopCount(_)
PopCount(m) == IF m = 0 THEN 0 ELSE (m % 2) + PopCount(m \div 2)

\* (linear folds; the textbook CHOOSE definitions are quadratic in TLC)
Max(S) == FSE!FoldSet(LAMBDA x, acc : IF x > acc THEN x ELSE acc, CHOOSE x \in S : TRUE, S)
Min(S) == FSE!FoldSet(LAMBDA x, acc : IF x < acc THEN x ELSE acc, CHOOSE x \in S : TRUE, S)

-----------------------------------------------------------------------------
(* C01: pointwise logic *)
FnZero(n) == {}
FnOne(n) == Dom(n)
FnNot(n, f) == Dom(n) \ f
FnAnd(f, g) == f \cap g
FnOr(f, g) == f \cup g
FnXor(f, g) == (f \ g) \cup (g \ f)

(* C03: variable transforms *)
Flip(n, f, i) == {FlipBit(m, i) : m \in f}
Swap(n, f, i, j) == {SwapBits(m, i, j) : m \in f}
Cof0(n, f, i) == {m \in Dom(n) : ClrBit(m, i) \in f}
Cof1(n, f, i) == {m \in Dom(n) : SetBit(m, i) \in f}
FromCof(n, c0, c1, i) == {m \in c0 : ~Bit(m, i)} \cup {m \in c1 : Bit(m, i)}
DependsOn(n, f, i) == Flip(n, f, i) # f

(* C11: named constructors *)
NthVar(n, i) == {m \in Dom(n) : Bit(m, i)}
Symmetric(n, C) == {m \in Dom(n) : PopCount(m) \in C}     \* C: set of counts whose value is 1
Equals(n, k) == {m \in Dom(n) : PopCount(m) = k}
Threshold(n, k) == {m \in Dom(n) : PopCount(m) >= k}
Parity(n) == {m \in Dom(n) : PopCount(m) % 2 = 1}
Majority(n) == Threshold(n, (n + 1) \div 2)

(* C08: numeric order, most significant bit = value on the all-ones assignment *)
SymDiff(f, g) == (f \ g) \cup (g \ f)
Less(f, g) == f # g /\ Max(SymDiff(f, g)) \in g
CmpFn(f, g) == IF f = g THEN "eq" ELSE IF Less(f, g) THEN "lt" ELSE "gt"
\* Lut ordering: number of variables first
CmpLut(n1, f1, n2, f2) == IF n1 < n2 THEN "lt" ELSE IF n1 > n2 THEN "gt" ELSE CmpFn(f1, f2)

\* Numeric successor; wraps to zero (ok = FALSE) after the all-ones table
Succ(n, f) ==
  IF f = Dom(n) THEN [on |-> {}, ok |-> FALSE]
  ELSE LET z == Min(Dom(n) \ f) IN [on |-> {m \in f : m > z} \cup {z}, ok |-> TRUE]

\* f + k as 2^n-bit numbers (k < 2^30), 16 bits at a time so that no TLC integer exceeds 2^31; ok = FALSE
\* when the sum does not fit (the table then holds the sum modulo 2^(2^n))
Limb(f, j) == FSE!FoldSet(LAMBDA b, acc : acc + 2^(b - 16 * j), 0, {b \in f : b >= 16 * j /\ b < 16 * j + 16})
LimbSet(j, v) == {16 * j + c : c \in {c \in 0..15 : (v \div 2^c) % 2 = 1}}
RECURSIVE AddFrom(_, _, _, _)
AddFrom(nl, f, j, carry) ==
  IF carry = 0 THEN [on |-> {x \in f : x >= 16 * j}, ok |-> TRUE]
  ELSE IF j = nl THEN [on |-> {}, ok |-> FALSE]
  ELSE LET s == Limb(f, j) + carry
           rest == AddFrom(nl, f, j + 1, s \div 65536)
       IN [on |-> LimbSet(j, s % 65536) \cup rest.on, ok |-> rest.ok]
AddTab(n, f, k) ==
  IF n >= 4 THEN AddFrom(2^(n - 4), f, 0, k)
  ELSE LET s == Limb(f, 0) + k IN [on |-> LimbSet(0, s % 2^(2^n)), ok |-> s < 2^(2^n)]
\* the number of tables from f to the last one, 2^(2^n) - f, as a set of bit positions (bit 2^n for f = 0)
CountFrom(n, f) == IF f = {} THEN {2^n} ELSE Succ(n, Dom(n) \ f).on

\* The iterator all_functions(n) as an object: [cur, ok] = the next item and whether there is one.
\* nth(k): the item k places ahead, or none - and the iterator exhausted - when fewer than k + 1 are left.
IterInit == [cur |-> {}, ok |-> TRUE]
IterNth(n, st, k) ==     \* [cur, ok, some, item]
  IF ~st.ok THEN [cur |-> st.cur, ok |-> FALSE, some |-> FALSE, item |-> {}]
  ELSE LET a == AddTab(n, st.cur, k) IN
       IF ~a.ok THEN [cur |-> {}, ok |-> FALSE, some |-> FALSE, item |-> {}]
       ELSE LET s == Succ(n, a.on) IN [cur |-> s.on, ok |-> s.ok, some |-> TRUE, item |-> a.on]

\* Minimum of a non-empty set of functions in the numeric order (radix descent)
RECURSIVE MinByBit(_, _)
MinByBit(S, b) ==
  IF b < 0 \/ Cardinality(S) = 1 THEN CHOOSE x \in S : TRUE
  ELSE LET Z == {x \in S : b \notin x} IN MinByBit(IF Z = {} THEN S ELSE Z, b - 1)
MinFn(n, S) == MinByBit(S, 2^n - 1)

-----------------------------------------------------------------------------
(* C06: top decomposition and unateness *)
DecompClass(n, f, v) ==
  LET c0 == Cof0(n, f, v)
      c1 == Cof1(n, f, v)
      Z == {}
      O == Dom(n)
  IN IF c0 = c1 THEN "Independent"
     ELSE IF c0 = Z /\ c1 = O THEN "Identity"
     ELSE IF c0 = O /\ c1 = Z THEN "Negation"
     ELSE IF c0 = Z THEN "And"
     ELSE IF c1 = O THEN "Or"
     ELSE IF c0 = O THEN "Le"
     ELSE IF c1 = Z THEN "Lt"
     ELSE IF c0 = O \ c1 THEN "Xor"
     ELSE "None"
\* the four families DecompositionType sorts its classes into (is_trivial, is_and_type, is_xor_type, is_simple_gate)
ClassFlags(c) == [trivial |-> c \in {"Independent", "Identity", "Negation"},
                  andt    |-> c \in {"And", "Or", "Le", "Lt"},
                  xort    |-> c = "Xor",
                  gate    |-> c \in {"And", "Or", "Le", "Lt", "Xor"}]
PosUnate(n, f, v) == Cof0(n, f, v) \subseteq Cof1(n, f, v)
NegUnate(n, f, v) == Cof1(n, f, v) \subseteq Cof0(n, f, v)

-----------------------------------------------------------------------------
(* C04 / C05: group actions and certificates *)
\* perm: sequence of length n over 0..n-1 (perm[i+1] is the image of i); mask \subseteq 0..n
IsPerm(n, perm) == /\ Len(perm) = n
                   /\ \A i \in 1..n : perm[i] \in 0..(n - 1)
                   /\ \A i, j \in 1..n : i # j => perm[i] # perm[j]
IdPerm(n) == [i \in 1..n |-> i - 1]
RECURSIVE XofR(_, _, _, _)
XofR(y, perm, mask, i) ==    \* sum over variables i..Len(perm)-1
  IF i >= Len(perm) THEN 0
  ELSE (IF Bit(y, i) # (i \in mask) THEN 2^(perm[i + 1]) ELSE 0) + XofR(y, perm, mask, i + 1)
\* g(y) = f(x) xor mask[n], where x[perm[i]] = y[i] xor mask[i]
ApplyCert(n, f, perm, mask) ==
  {y \in Dom(n) : (XofR(y, perm, mask, 0) \in f) # (n \in mask)}

\* Orbits, by closure under the generators named in the property (permuting inputs;
\* complementing any input and/or the output)
GenP(n, f) == {Swap(n, f, i, i + 1) : i \in 0..(n - 2)}
GenN(n, f) == {Flip(n, f, i) : i \in 0..(n - 1)} \cup {FnNot(n, f)}
RECURSIVE CloseUnder(_, _, _, _)
CloseUnder(kind, n, todo, seen) ==
  IF todo = {} THEN seen
  ELSE LET nxt == UNION {(CASE kind = "p" -> GenP(n, f)
                            [] kind = "n" -> GenN(n, f)
                            [] OTHER -> GenP(n, f) \cup GenN(n, f)) : f \in todo}
           new == nxt \ seen
       IN CloseUnder(kind, n, new, seen \cup new)
Orbit(kind, n, f) == CloseUnder(kind, n, {f}, {f})
OrbitMin(kind, n, f) == MinFn(n, Orbit(kind, n, f))

\* The same orbits by enumeration of the group elements (faster for TLC on larger sizes; the
\* two definitions are compared by mc/MC_Canon).  `maps` is the set of index maps
\* [assignment -> assignment] of all input permutations, computed once per size (PermMaps).
RECURSIVE PermList(_)
PermList(n) ==      \* all n! permutations (as image sequences over 0..n-1), as a sequence
  IF n = 0 THEN << <<>> >>
  ELSE LET prev == PermList(n - 1)
           Ins(p, j) == [i \in 1..n |-> IF i < j THEN p[i] ELSE IF i = j THEN n - 1 ELSE p[i - 1]]
       IN [k \in 1..(Len(prev) * n) |-> Ins(prev[((k - 1) \div n) + 1], ((k - 1) % n) + 1)]
PermMap(n, perm) == [y \in Dom(n) |-> XofR(y, perm, {}, 0)]
PermMapsSlow(n) == LET pl == PermList(n) IN [k \in 1..Len(pl) |-> PermMap(n, pl[k])]
\* Neighbourhood of f in its orbit: one generator step (an exchange of two inputs; a complemented input or
\* output).  The orbit minimum is no larger than any of its neighbours, nor than theirs: a necessary condition
\* that stays cheap at sizes where the orbit itself cannot be enumerated.
Neighbours(kind, n, f) ==
  LET sw == IF kind \in {"p", "npn"} THEN {Swap(n, f, i, j) : i \in 0..(n - 1), j \in 0..(n - 1)} ELSE {}
      fl == IF kind \in {"n", "npn"} THEN {Flip(n, f, i) : i \in 0..(n - 1)} \cup {Dom(n) \ f} ELSE {}
  IN sw \cup fl
Neighbours2(kind, n, f) == LET N1 == Neighbours(kind, n, f) IN N1 \cup UNION {Neighbours(kind, n, g) : g \in N1}

\* the same maps built by coset decomposition S_n = U_j S_{n-1} t_j (t_j exchanges x_j and x_{n-1}),
\* with every intermediate map forced to a concrete function (f @@ <<>>)
Concrete(f) == f @@ <<>>
RECURSIVE PermMaps(_)
PermMaps(n) ==
  IF n = 0 THEN <<Concrete([y \in {0} |-> 0])>>
  ELSE LET prev == PermMaps(n - 1)
           h == 2^(n - 1)
           ext == Concrete([k \in 1..Len(prev) |->
                     Concrete([y \in Dom(n) |-> IF y >= h THEN prev[k][y - h] + h ELSE prev[k][y]])])
           tr == Concrete([j \in 0..(n - 1) |-> Concrete([y \in Dom(n) |-> SwapBits(y, j, n - 1)])])
       IN Concrete([k \in 1..(Len(prev) * n) |->
             Concrete([y \in Dom(n) |-> ext[((k - 1) \div n) + 1][tr[(k - 1) % n][y]]])])
IdMaps(n) == <<[y \in Dom(n) |-> y]>>

\* (flat comprehensions on purpose: TLC's cost of a recursive operator grows with the square of
\* its depth, so long iterations are written as set constructions or Java-backed folds)
NOrbitOf(n, g) == LET im == {{x ^^ m : x \in g} : m \in Dom(n)} IN im \cup {Dom(n) \ c : c \in im}
OrbitMinEnum(kind, n, f, maps) ==
  CASE kind = "n" -> MinFn(n, NOrbitOf(n, f))
    [] kind = "p" -> MinFn(n, {{maps[k][x] : x \in f} : k \in 1..Len(maps)})
    [] OTHER -> MinFn(n, {MinFn(n, NOrbitOf(n, {maps[k][x] : x \in f})) : k \in 1..Len(maps)})

-----------------------------------------------------------------------------
(* C15: algebraic normal form.  Coefficient of the positive cube S (a set of        *)
(* variables coded as an assignment) = XOR of f over all assignments contained in S *)
SubMask(a, s) == (a & s) = a
AnfCoef(f, s) == Cardinality({a \in f : SubMask(a, s)}) % 2 = 1
Anf(n, f) == {s \in Dom(n) : AnfCoef(f, s)}

=============================================================================
