-------------------------------- MODULE Optim --------------------------------
(***************************************************************************)
(* C18: gate cost of a multi-output two-level solution and its exact       *)
(* optimum.                                                                *)
(*                                                                         *)
(* A solution gives, per output j, a set of cubes (and, for SOPES, a set   *)
(* of exclusive cubes).  Cost = AND (resp. XOR) gates of the DISTINCT      *)
(* cubes (exclusive cubes) used anywhere, plus one OR gate (XOR gate for   *)
(* an Esop) per extra term of each output, weighted by the given costs.    *)
(*                                                                         *)
(* The optimum is computed by dynamic programming over the candidate       *)
(* terms, one term at a time (each distinct term is either unused or used  *)
(* by a non-empty set U of the outputs it may serve, and is paid once):    *)
(*   OR forms : state = tuple of on-set parts still to be covered          *)
(*   XOR forms: state = tuple of functions still to be realised            *)
(* mc/MC_Optim compares the DP with brute force over all subsets.          *)
(***************************************************************************)
EXTENDS Naturals, FiniteSets, Sequences, BoolFn, TwoLevel
LOCAL SQX == INSTANCE SequencesExt
LOCAL FSX2 == INSTANCE FiniteSetsExt

INF == 1000000
MinNat(S) == FSX2!FoldSet(LAMBDA x, acc : IF x < acc THEN x ELSE acc, INF, S)
SumSeq(s) == SQX!FoldLeft(LAMBDA acc, x : acc + x, 0, s)
SetAsSeq(S) == SQX!SetToSeq(S)

-----------------------------------------------------------------------------
(* Cost of a returned solution.  sol: sequence (one per output) of [cubes, ecubes] SETS *)
TermCount(o) == Cardinality(o.cubes) + Cardinality(o.ecubes)
SolutionCost(sol, andc, xorc, orc, isEsop) ==
  LET allCubes == UNION {sol[j].cubes : j \in 1..Len(sol)}
      allEcubes == UNION {sol[j].ecubes : j \in 1..Len(sol)}
      gateSum(S, lits(_)) == SumSeq([k \in 1..Cardinality(S) |-> Gates(lits(SetAsSeq(S)[k]))])
      joinc == IF isEsop THEN xorc ELSE orc
  IN andc * gateSum(allCubes, CubeNumLits)
     + xorc * gateSum(allEcubes, LAMBDA e : Cardinality(e.v))
     + joinc * SumSeq([j \in 1..Len(sol) |-> IF TermCount(sol[j]) = 0 THEN 0 ELSE TermCount(sol[j]) - 1])

\* every form denotes its function; OR-form terms are implicants
SoundOr(n, fs, sol) ==
  \A j \in 1..Len(fs) :
     /\ (UNION {CubeFn(c, n) : c \in sol[j].cubes}) \cup (UNION {EcubeFn(e, n) : e \in sol[j].ecubes}) = fs[j]
     /\ \A c \in sol[j].cubes : CubeFn(c, n) \subseteq fs[j]
     /\ \A e \in sol[j].ecubes : EcubeFn(e, n) \subseteq fs[j]
SoundXor(n, fs, sol) ==
  \A j \in 1..Len(fs) :
     {m \in Dom(n) : Cardinality({c \in sol[j].cubes : m \in CubeFn(c, n)}) % 2 = 1} = fs[j]

-----------------------------------------------------------------------------
(* Candidate terms: [sat |-> on-set, w |-> gate cost of the term itself] *)
CubeCands(n, andc) == {[sat |-> CubeFn(c, n), w |-> andc * Gates(CubeNumLits(c))] : c \in AllCubes(n)}
EcubeCands(n, xorc) == {[sat |-> EcubeFn(e, n), w |-> xorc * Gates(Cardinality(e.v))] : e \in AllEcubes(n)}

\* non-empty subsets of the outputs
Uses(m) == (SUBSET (1..m)) \ {{}}

\* OR forms.  dp[s] = least cost (term gates + one join gate per use) of terms covering at least
\* s[j] in every output j, using only implicants.  States: tuples of subsets of the on-sets.
OrStates(fs) ==      \* tuples of subsets of the respective on-sets (1 to 3 outputs)
  CASE Len(fs) = 1 -> {<<a>> : a \in SUBSET fs[1]}
    [] Len(fs) = 2 -> {<<a, b>> : a \in SUBSET fs[1], b \in SUBSET fs[2]}
    [] Len(fs) = 3 -> {<<a, b, c>> : a \in SUBSET fs[1], b \in SUBSET fs[2], c \in SUBSET fs[3]}
OrStep(fs, joinc, dp, t) ==
  LET m == Len(fs)
      ok == {j \in 1..m : t.sat # {} /\ t.sat \subseteq fs[j]}      \* outputs this term may serve
  IN IF ok = {} THEN dp
     ELSE Concrete([s \in DOMAIN dp |->
             MinNat({dp[s]} \cup
                    {dp[[j \in 1..m |-> IF j \in U THEN s[j] \ t.sat ELSE s[j]]] + t.w + joinc * Cardinality(U)
                       : U \in (SUBSET ok) \ {{}}})])
OrOpt(n, fs, cands, joinc) ==
  LET m == Len(fs)
      states == OrStates(fs)
      dp0 == Concrete([s \in states |-> IF \A j \in 1..m : s[j] = {} THEN 0 ELSE INF])
      dp == SQX!FoldLeft(LAMBDA acc, t : OrStep(fs, joinc, acc, t), dp0, SetAsSeq(cands))
      nonzero == Cardinality({j \in 1..m : fs[j] # {}})
  IN dp[[j \in 1..m |-> fs[j]]] - joinc * nonzero

\* XOR forms.  dp[s] = least cost of terms whose XOR is exactly s[j] in every output j
XorStep(m, joinc, dp, t) ==
  Concrete([s \in DOMAIN dp |->
     MinNat({dp[s]} \cup
            {dp[[j \in 1..m |-> IF j \in U THEN SymDiff(s[j], t.sat) ELSE s[j]]] + t.w + joinc * Cardinality(U)
               : U \in Uses(m)})])
XorOpt(n, fs, cands, joinc) ==
  LET m == Len(fs)
      states == [1..m -> SUBSET Dom(n)]
      dp0 == Concrete([s \in states |-> IF \A j \in 1..m : s[j] = {} THEN 0 ELSE INF])
      dp == SQX!FoldLeft(LAMBDA acc, t : XorStep(m, joinc, acc, t), dp0, SetAsSeq(cands))
      nonzero == Cardinality({j \in 1..m : fs[j] # {}})
  IN dp[[j \in 1..m |-> fs[j]]] - joinc * nonzero

OptSop(n, fs, andc, orc) == OrOpt(n, fs, CubeCands(n, andc), orc)
OptSopes(n, fs, andc, xorc, orc) == OrOpt(n, fs, CubeCands(n, andc) \cup EcubeCands(n, xorc), orc)
OptEsop(n, fs, andc, xorc) == XorOpt(n, fs, CubeCands(n, andc), xorc)

=============================================================================
