------------------------------ MODULE TwoLevel ------------------------------
(***************************************************************************)
(* Two-level forms (C12 - C16): cubes, exclusive cubes, Sop, Esop, Soes,   *)
(* their denotations, and the reading of their printed text.               *)
(*                                                                         *)
(* A cube is [p, q]: sets of positive / negative variables (0..31); the    *)
(* canonical zero has every variable in both.  An exclusive cube is        *)
(* [v, x]: set of variables and the XNOR flag.  A form is [n, cubes] with  *)
(* cubes a sequence.  An assignment is the SET of variables that are true  *)
(* (so that 32-variable assignments need no 32-bit integers); AsSet(m, n)  *)
(* converts from the packed integer used for tables.                       *)
(***************************************************************************)
EXTENDS Naturals, FiniteSets, Sequences, BoolFn

AllVars == 0..31
AsSet(m, n) == {i \in 0..(n - 1) : Bit(m, i)}
SeqSet(s) == {s[k] : k \in 1..Len(s)}

-----------------------------------------------------------------------------
(* Cubes (C12) *)
CubeZero == [p |-> AllVars, q |-> AllVars]
CubeOne == [p |-> {}, q |-> {}]
Contradictory(c) == c.p \cap c.q # {}
MkCube(p, q) == IF p \cap q # {} THEN CubeZero ELSE [p |-> p, q |-> q]
\* true exactly on the assignments that set all positive variables and clear all negative ones
CubeVal(c, M) == c.p \subseteq M /\ c.q \cap M = {}
CubeAnd(a, b) == MkCube(a.p \cup b.p, a.q \cup b.q)
Minterm(n, M) == [p |-> M \cap (0..(n - 1)), q |-> (0..(n - 1)) \ M]
CubeNumLits(c) == IF Contradictory(c) THEN 0 ELSE Cardinality(c.p) + Cardinality(c.q)
Gates(lits) == IF lits <= 1 THEN 0 ELSE lits - 1
CubeSupport(c) == IF Contradictory(c) THEN {} ELSE c.p \cup c.q

\* Semantic relations, quantifying over the assignments of the variables that matter
CubeSat(c, V) == {M \in SUBSET V : CubeVal(c, M)}
ImpliesSem(a, b, V) == \A M \in SUBSET V : CubeVal(a, M) => CubeVal(b, M)
IntersectsSem(a, b, V) == \E M \in SUBSET V : CubeVal(a, M) /\ CubeVal(b, M)
\* ... and their syntactic characterisations (equivalence is checked in mc/MC_TwoLevel)
ImpliesSyn(a, b) == Contradictory(a) \/ (~Contradictory(b) /\ b.p \subseteq a.p /\ b.q \subseteq a.q)
IntersectsSyn(a, b) == ~Contradictory(a) /\ ~Contradictory(b) /\ a.p \cap b.q = {} /\ a.q \cap b.p = {}
\* a cube over the variables of an n-variable table as a function (on-set)
CubeFn(c, n) == {m \in Dom(n) : CubeVal(c, AsSet(m, n))}
ImplicantOf(c, n, f) == CubeFn(c, n) \subseteq f
\* all 3^n non-zero cubes over n variables
AllCubes(n) == {c \in {[p |-> P, q |-> Q] : P \in SUBSET (0..(n - 1)), Q \in SUBSET (0..(n - 1))} : ~Contradictory(c)}

-----------------------------------------------------------------------------
(* Exclusive cubes (C13) *)
EcubeVal(e, M) == (Cardinality(e.v \cap M) % 2 = 1) # e.x
EcubeXor(a, b) == [v |-> (a.v \ b.v) \cup (b.v \ a.v), x |-> a.x # b.x]
EcubeNot(a) == [v |-> a.v, x |-> ~a.x]
EcubeFn(e, n) == {m \in Dom(n) : EcubeVal(e, AsSet(m, n))}
AllEcubes(n) == {[v |-> V, x |-> X] : V \in SUBSET (0..(n - 1)), X \in BOOLEAN}

-----------------------------------------------------------------------------
(* Forms: denotations as on-sets over Dom(n) *)
SopFn(n, cubes) == UNION {CubeFn(cubes[k], n) : k \in 1..Len(cubes)}
SoesFn(n, ecubes) == UNION {EcubeFn(ecubes[k], n) : k \in 1..Len(ecubes)}
EsopFn(n, cubes) == {m \in Dom(n) : Cardinality({k \in 1..Len(cubes) : CubeVal(cubes[k], AsSet(m, n))}) % 2 = 1}

\* The same denotations computed from the satisfying set of each term, enumerated directly from its free
\* variables, instead of a test of every assignment (cost: the size of the satisfying sets rather than
\* terms x assignments).  Equality with the definitions above is an obligation of mc/MC_TwoLevel; trace
\* validation evaluates these.
LOCAL FST == INSTANCE FiniteSetsExt
LOCAL SQF == INSTANCE SequencesExt
SetVal(S) == FST!FoldSet(LAMBDA i, acc : acc + 2^i, 0, S)
CubeFnX(c, n) ==
  IF Contradictory(c) \/ ~(c.p \subseteq 0..(n - 1)) THEN {}
  ELSE LET base == SetVal(c.p) IN {base + SetVal(F) : F \in SUBSET ((0..(n - 1)) \ (c.p \cup c.q))}
SopFnX(n, cubes) == UNION {CubeFnX(cubes[k], n) : k \in 1..Len(cubes)}
EsopFnX(n, cubes) == SQF!FoldLeft(LAMBDA acc, c : SymDiff(acc, CubeFnX(c, n)), {}, cubes)

\* C14: containment-irredundant cover
Irredundant(cubes) ==
  /\ \A k \in 1..Len(cubes) : ~Contradictory(cubes[k])
  /\ \A j, k \in 1..Len(cubes) : j # k => cubes[j] # cubes[k] /\ ~ImpliesSyn(cubes[j], cubes[k])
\* the same for long lists (the quadratic test does not finish on tens of thousands of cubes): no contradictory
\* cube, no duplicate, and the quadratic test on the first and the last 300 cubes - every failure is a real one
IrredundantLong(cubes) ==
  IF Len(cubes) <= 600 THEN Irredundant(cubes)
  ELSE /\ \A k \in 1..Len(cubes) : ~Contradictory(cubes[k])
       /\ Cardinality(SeqSet(cubes)) = Len(cubes)
       /\ Irredundant(SubSeq(cubes, 1, 300) \o SubSeq(cubes, Len(cubes) - 299, Len(cubes)))
\* minterm cover of a function: one minterm per true assignment, each once
IsMintermCover(n, f, cubes) == Len(cubes) = Cardinality(f) /\ SeqSet(cubes) = {Minterm(n, AsSet(m, n)) : m \in f}

\* C15: positive-polarity Reed-Muller form: exactly the positive cubes whose ANF coefficient is 1
PprmCubes(n, f) == {[p |-> AsSet(s, n), q |-> {}] : s \in Anf(n, f)}

-----------------------------------------------------------------------------
(* C16: reading printed text.  Bytes: 'x' 120, '!' 33, '0' 48, '1' 49, ' ' 32, '^' 94, '|' 124 *)
IsDigit(b) == b >= 48 /\ b <= 57

\* Spaces carry no meaning in the grammar: they are dropped before reading (NoSpaces); the text is
\* then split at every '^' / '|' byte.  Ranges returns the [lo, hi] ranges of s[lo..hi] between
\* occurrences of the separator byte c.
NoSpaces(s) == SelectSeq(s, LAMBDA b : b # 32)
SepStarts(s, c) == {i \in 1..Len(s) : s[i] = c}
LOCAL SQR == INSTANCE SequencesExt
Ranges(s, lo, hi, c) ==       \* the maximal runs of s[lo..hi] between occurrences of the byte c (one pass)
  LET step(acc, i) == IF s[i] = c THEN [done |-> Append(acc.done, [lo |-> acc.start, hi |-> i - 1]), start |-> i + 1]
                      ELSE acc
      r == SQR!FoldLeft(step, [done |-> <<>>, start |-> lo], [k \in 1..(IF hi >= lo THEN hi - lo + 1 ELSE 0) |-> lo + k - 1])
  IN Append(r.done, [lo |-> r.start, hi |-> hi])

\* a product term s[lo..hi]: "0", "1", or literals  [!]x<digits>  in sequence
LitStarts(s, lo, hi) == {i \in lo..hi : s[i] = 120}
DigitsEnd(s, i, hi) ==      \* last index of the digit run following the 'x' at i
  LET nd == {j \in (i + 1)..hi : ~IsDigit(s[j])} IN IF nd = {} THEN hi ELSE Min(nd) - 1
VarOf(s, i, hi) ==
  LET e == DigitsEnd(s, i, hi) IN
  IF e = i + 1 THEN s[e] - 48 ELSE IF e = i + 2 THEN 10 * (s[i + 1] - 48) + (s[i + 2] - 48) ELSE 999
Negated(s, i, lo) == i > lo /\ s[i - 1] = 33
TermLits(s, lo, hi) == {[v |-> VarOf(s, i, hi), neg |-> Negated(s, i, lo), from |-> IF Negated(s, i, lo) THEN i - 1 ELSE i,
                         to |-> DigitsEnd(s, i, hi)] : i \in LitStarts(s, lo, hi)}
TermIsConst(s, lo, hi) == lo = hi /\ s[lo] \in {48, 49}
TermParses(s, lo, hi) ==
  \/ TermIsConst(s, lo, hi)
  \/ /\ lo <= hi
     /\ LET L == TermLits(s, lo, hi) IN
        /\ L # {}
        /\ \A t \in L : t.to > t.from /\ t.v < 32 /\ (t.to - (IF t.neg THEN t.from + 1 ELSE t.from)) \in {1, 2}
        /\ UNION {t.from..t.to : t \in L} = lo..hi            \* every byte belongs to a literal
        /\ \A t, u \in L : t # u => (t.from..t.to) \cap (u.from..u.to) = {}
\* literals of a product term in textual order have strictly increasing variable indices
\* (a variable may appear as x<i>!x<i> only in ... never: cubes printed are consistent)
TermIncreasing(s, lo, hi) ==
  TermIsConst(s, lo, hi) \/ \A t, u \in TermLits(s, lo, hi) : t.from < u.from => t.v < u.v

\* full text: OR of XOR of AND.  The text is parsed once into a set of OR-parts, each a set of
\* product terms [lo, const, pos, neg] (lo keeps equal terms of one XOR list apart)
TermStruct(s, lo, hi) ==
  IF TermIsConst(s, lo, hi) THEN [lo |-> lo, const |-> IF s[lo] = 49 THEN "1" ELSE "0", pos |-> {}, neg |-> {}]
  ELSE LET L == TermLits(s, lo, hi) IN
       [lo |-> lo, const |-> "-", pos |-> {t.v : t \in {u \in L : ~u.neg}}, neg |-> {t.v : t \in {u \in L : u.neg}}]
OrParts(s) == SeqSet(Ranges(s, 1, Len(s), 124))
XorTerms(s, o) == SeqSet(Ranges(s, o.lo, o.hi, 94))
TextParsesNS(s) ==
  /\ Len(s) >= 1
  /\ \A o \in OrParts(s) : \A x \in XorTerms(s, o) : TermParses(s, x.lo, x.hi)
\* blanks may separate tokens, not split one: none right after 'x' (before the index), after '!' or between digits
TokensTight(t) == \A k \in 1..(Len(t) - 1) :
                    t[k + 1] = 32 => /\ t[k] \notin {120, 33}
                                     /\ ~(IsDigit(t[k]) /\ \E j \in (k + 2)..Len(t) : IsDigit(t[j]) /\ \A i \in (k + 1)..(j - 1) : t[i] = 32)
TextParses(t) == TokensTight(t) /\ TextParsesNS(NoSpaces(t))
ParsedTextNS(s) == {{TermStruct(s, x.lo, x.hi) : x \in XorTerms(s, o)} : o \in OrParts(s)}
ParsedText(t) == ParsedTextNS(NoSpaces(t))
TermTrue(t, M) == IF t.const = "-" THEN t.pos \subseteq M /\ t.neg \cap M = {} ELSE t.const = "1"
ParsedVal(P, M) == \E part \in P : Cardinality({t \in part : TermTrue(t, M)}) % 2 = 1
TextFn(s, n) == LET P == ParsedText(s) IN {m \in Dom(n) : ParsedVal(P, AsSet(m, n))}
\* variables increase inside every product term; in an exclusive cube (XOR of single variables)
\* they increase along the XOR list too
TextIncreasingNS(s) == \A o \in OrParts(s) : \A x \in XorTerms(s, o) : TermIncreasing(s, x.lo, x.hi)
TextIncreasing(t) == TextIncreasingNS(NoSpaces(t))
XorListIncreasing(t) ==      \* for Ecube text: 1 ^ x0 ^ x3 ...
  LET s == NoSpaces(t)
      xs == Ranges(s, 1, Len(s), 94)
      vars == [k \in 1..Len(xs) |-> IF TermIsConst(s, xs[k].lo, xs[k].hi) THEN 0 - 1
                                     ELSE VarOf(s, xs[k].lo, xs[k].hi)]
  IN \A j, k \in 1..Len(xs) : j < k => vars[j] < vars[k]

-----------------------------------------------------------------------------
(* Implementation-shaped part: the Sop operations, the Esop sweep and the Display impls as the *)
(* code performs them (sop.rs, esop.rs, cube.rs, ecube.rs); mc/MC_TwoLevel checks them against  *)
(* the denotations above.                                                                       *)
LOCAL SQT == INSTANCE SequencesExt
MaskLess(A, B) == A # B /\ Max(SymDiff(A, B)) \in B              \* u32 masks compared as numbers
CubeLess(a, b) == MaskLess(a.p, b.p) \/ (a.p = b.p /\ MaskLess(a.q, b.q))      \* derived Ord on (pos, neg)
SortCubes(S) == SQT!SortSeq(SQT!SetToSeq(S), CubeLess)
\* Sop::simplify: drop zero cubes, sort, dedup, drop every cube that implies another one
SopSimplify(cubes) ==
  LET S == {c \in SeqSet(cubes) : ~Contradictory(c)}
  IN SortCubes({c \in S : \A o \in S : c = o \/ ~(o.p \subseteq c.p /\ o.q \subseteq c.q)})
SopOrK(a, b) == SopSimplify(a \o b)
SopAndK(a, b) ==
  SopSimplify(SQT!SetToSeq({CubeAnd(a[i], b[j]) : i \in 1..Len(a), j \in 1..Len(b)} \ {CubeZero}))
\* !a: product over the cubes of the sum of the complemented literals
NegCubeSop(c) == SQT!SetToSeq({[p |-> {}, q |-> {v}] : v \in c.p} \cup {[p |-> {v}, q |-> {}] : v \in c.q})
SopNotK(a) == SQT!FoldLeft(LAMBDA acc, c : SopAndK(acc, NegCubeSop(c)), <<CubeOne>>, a)

\* From<&Lut> for Sop: the minterms of the true assignments, in increasing order of the assignment
SopFromLutK(n, f) ==
  LET ms == SelectSeq([k \in 1..(2^n) |-> k - 1], LAMBDA m : m \in f)
  IN [k \in 1..Len(ms) |-> Minterm(n, AsSet(ms[k], n))]

\* From<&Lut> for Esop: sweep the assignments upwards; a set bit emits the positive cube and
\* toggles every strict superset
EsopSweep(n, f) ==
  LET step(st, i) ==
        IF i \in st.lut
        THEN [lut |-> SymDiff(st.lut, {j \in Dom(n) : j > i /\ SubMask(i, j)}),
              cubes |-> Append(st.cubes, [p |-> AsSet(i, n), q |-> {}])]
        ELSE st
  IN SQT!FoldLeft(step, [lut |-> f, cubes |-> <<>>], [k \in 1..(2^n) |-> k - 1]).cubes

\* Display
RECURSIVE DecDigits(_)
DecDigits(k) == IF k < 10 THEN <<48 + k>> ELSE DecDigits(k \div 10) \o <<48 + (k % 10)>>
CubeText(c) ==
  IF c = CubeOne THEN <<49>>
  ELSE IF Contradictory(c) THEN <<48>>
  ELSE SQT!FoldLeft(LAMBDA acc, v : acc \o (IF v \in c.p THEN <<120>> \o DecDigits(v) ELSE <<>>)
                                      \o (IF v \in c.q THEN <<33, 120>> \o DecDigits(v) ELSE <<>>),
                    <<>>, [k \in 1..32 |-> k - 1])
JoinWith(parts, sep) ==
  SQT!FoldLeft(LAMBDA acc, k : IF k = 1 THEN parts[1] ELSE acc \o sep \o parts[k], <<>>, [k \in 1..Len(parts) |-> k])
EcubeText(e) ==
  IF e.v = {} /\ ~e.x THEN <<48>>
  ELSE LET vars == SQT!SortSeq(SQT!SetToSeq(e.v), LAMBDA a, b : a < b)
           parts == (IF e.x THEN << <<49>> >> ELSE <<>>) \o [k \in 1..Len(vars) |-> <<120>> \o DecDigits(vars[k])]
       IN JoinWith(parts, <<32, 94, 32>>)
SopText(cubes) == IF cubes = <<>> THEN <<48>> ELSE JoinWith([k \in 1..Len(cubes) |-> CubeText(cubes[k])], <<32, 124, 32>>)
EsopText(cubes) == IF cubes = <<>> THEN <<48>> ELSE JoinWith([k \in 1..Len(cubes) |-> CubeText(cubes[k])], <<32, 94, 32>>)
SoesText(ecubes) == IF ecubes = <<>> THEN <<48>> ELSE JoinWith([k \in 1..Len(ecubes) |-> EcubeText(ecubes[k])], <<32, 124, 32>>)

=============================================================================
