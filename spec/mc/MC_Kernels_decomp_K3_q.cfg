SPECIFICATION Spec
CONSTANTS
  K = 3
  MaxN = 4
  FULL = FALSE
  PART = "decomp"
CHECK_DEADLOCK FALSE
