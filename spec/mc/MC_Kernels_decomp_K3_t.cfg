SPECIFICATION Spec
CONSTANTS
  K = 3
  MaxN = 4
  FULL = TRUE
  PART = "decomp"
CHECK_DEADLOCK FALSE
