SPECIFICATION Spec
CONSTANTS
  K = 2
  MaxN = 4
  FULL = FALSE
  PART = "text"
CHECK_DEADLOCK FALSE
