SPECIFICATION Spec
CONSTANTS
  K = 3
  MaxN = 4
  FULL = FALSE
  PART = "order"
CHECK_DEADLOCK FALSE
