------------------------------ MODULE MC_Canon ------------------------------
(***************************************************************************)
(* C04 / C05 at the model level.                                           *)
(*  (a) the swap / flip sequences the code generates are closed cycles     *)
(*      through every group element (sizes 0..SeqN);                       *)
(*  (b) walk theorem: for every function of n <= MaxN variables the        *)
(*      P / N / NPN walk of canonization.rs over such sequences ends with  *)
(*      best = the orbit minimum and tab = the input, and the decoded      *)
(*      witness (with the "none" convention for an input that is already   *)
(*      minimal) is a valid certificate;                                   *)
(*  (c) the two definitions of the orbit minimum (closure under the        *)
(*      generators, enumeration of the group) agree; canonization is       *)
(*      idempotent and constant on orbits.                                 *)
(***************************************************************************)
EXTENDS Integers, FiniteSets, Sequences, TLC, BoolFn, Canon

CONSTANTS MaxN, SeqN
VARIABLE st      \* [n, f] or [seq |-> n]

Init == st \in (UNION {{[n |-> n, f |-> f] : f \in SUBSET Dom(n)} : n \in 0..MaxN})
               \cup {[n |-> n, f |-> {0 - 1}] : n \in 0..SeqN}

SeqOblig(n) ==
  /\ IsGrayCycle(GenGrayFlips(n), n)
  /\ IsHamiltonianSwapCycle(GenSwaps(n), n)

WalkOblig(n, f) ==
  LET sw == GenSwaps(n)
      fl == GenGrayFlips(n)
      maps == PermMaps(n)
      \* P
      pw == PWalk(n, sw, 1, WalkInit(f))
      pmin == OrbitMin("p", n, f)
      pperm == PDecode(sw, 1, IdPerm(n), pw.bestInd)
      \* N (for n = 0 the code compares with the complement explicitly)
      nw == IF n = 0 THEN Visit(WalkInit(f), FnNot(n, f)) ELSE NWalk(n, fl, 1, WalkInit(f))
      nmin == OrbitMin("n", n, f)
      nmask == IF n = 0 THEN (IF nw.bestInd < 0 THEN {} ELSE {0}) ELSE NDecode(n, fl, nw.bestInd)
      \* NPN (for n <= 1 the code delegates to N)
      qw == IF n <= 1 THEN nw ELSE NPNWalk(n, sw, fl, 1, WalkInit(f))
      qmin == OrbitMin("npn", n, f)
      qd == IF n <= 1 THEN [perm |-> IdPerm(n), mask |-> nmask] ELSE NPNDecode(n, sw, fl, qw.bestInd)
  IN /\ pw.best = pmin /\ (n >= 2 => pw.tab = f)
     /\ CertOK("p", n, f, pw.best, pperm, {})
     /\ nw.best = nmin
     /\ CertOK("n", n, f, nw.best, IdPerm(n), nmask)
     /\ qw.best = qmin
     /\ CertOK("npn", n, f, qw.best, qd.perm, qd.mask)
     \* the two definitions of the orbit minimum agree
     /\ OrbitMinEnum("p", n, f, maps) = pmin
     /\ OrbitMinEnum("n", n, f, maps) = nmin
     /\ OrbitMinEnum("npn", n, f, maps) = qmin
     \* idempotence, and the representative is constant on the orbit (checked on the generators)
     /\ OrbitMin("npn", n, qmin) = qmin /\ OrbitMin("p", n, pmin) = pmin /\ OrbitMin("n", n, nmin) = nmin
     /\ \A g \in GenP(n, f) : OrbitMin("p", n, g) = pmin
     /\ \A g \in GenN(n, f) : OrbitMin("n", n, g) = nmin
     /\ qmin = MinFn(n, {pmin, nmin, qmin})          \* the larger group can only do better
     \* soundness of the two conditions trace validation falls back on beyond enumeration: the neighbourhood
     \* lies inside the orbit, and so does every variant ApplyCert(f, perm, mask) of the kind's group
     /\ \A kind \in {"p", "n", "npn"} : Neighbours2(kind, n, f) \subseteq Orbit(kind, n, f)
     /\ {ApplyCert(n, f, PermList(n)[k], {}) : k \in 1..Len(PermList(n))} \subseteq Orbit("p", n, f)
     /\ {ApplyCert(n, f, IdPerm(n), mk) : mk \in SUBSET (0..n)} \subseteq Orbit("n", n, f)
     /\ UNION {{ApplyCert(n, f, PermList(n)[k], mk) : mk \in SUBSET (0..n)} : k \in 1..Len(PermList(n))}
           \subseteq Orbit("npn", n, f)

Next == /\ Assert(IF st.f = {0 - 1} THEN SeqOblig(st.n) ELSE WalkOblig(st.n, st.f), <<"canonization model", st>>)
        /\ UNCHANGED st
Spec == Init /\ [][Next]_st
=============================================================================
