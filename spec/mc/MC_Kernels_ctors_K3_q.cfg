SPECIFICATION Spec
CONSTANTS
  K = 3
  MaxN = 6
  FULL = FALSE
  PART = "ctors"
CHECK_DEADLOCK FALSE
