SPECIFICATION Spec
CONSTANTS
  N = 2
  MaxOut = 2
CHECK_DEADLOCK FALSE
