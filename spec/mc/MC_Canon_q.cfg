SPECIFICATION Spec
CONSTANTS
  MaxN = 3
  SeqN = 6
CHECK_DEADLOCK FALSE
