SPECIFICATION Spec
CONSTANTS
  K = 2
  N = 3
INVARIANTS ItemIsCount DoneOK NthOK CountOK
PROPERTY Terminates
CHECK_DEADLOCK FALSE
