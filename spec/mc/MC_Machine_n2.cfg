SPECIFICATION Spec
CONSTANTS
  N = 2
  NPARTNERS = 0
INVARIANT TypeOK
CHECK_DEADLOCK FALSE
