SPECIFICATION Spec
CONSTANTS
  K = 3
  MaxN = 3
  TopN = 4
CHECK_DEADLOCK FALSE
