SPECIFICATION Spec
CONSTANTS
  K = 2
  MaxN = 3
  TopN = 4
CHECK_DEADLOCK FALSE
