----------------------------- MODULE MC_Kernels -----------------------------
(***************************************************************************)
(* Refinement of the word-level kernels (Kernels.tla) against the          *)
(* denotational operators (BoolFn.tla), for EVERY well-formed table of     *)
(* every size 0..MaxN at word size W = 2^K.                                *)
(*                                                                         *)
(* One state per table; the obligations are evaluated as an Assert inside  *)
(* the (stuttering) next-state relation so that TLC spreads them over its  *)
(* workers.  PART selects a group of obligations (one config per group).   *)
(***************************************************************************)
EXTENDS Kernels, Text

CONSTANTS MaxN,        \* sizes 0..MaxN-1 are covered exhaustively
          FULL,        \* TRUE: size MaxN exhaustively too; FALSE: a deterministic 1/16 sample of it
          PART

VARIABLE st            \* [n, t]: a size and a well-formed block vector
LOCAL SQM == INSTANCE SequencesExt
Weight(t) == SQM!FoldLeft(LAMBDA acc, k : acc + (2 * k + 1) * t[k], 0, [k \in 1..Len(t) |-> k])

\* partners for binary operations: all tables for small sizes, structured ones otherwise
Partners(n) ==
  IF 2^(2^n) <= 256 THEN WFTabs(n)
  ELSE {FillZero(n), FillOne(n), FillParity(n), FillMajority(n)} \cup {FillNthVar(n, i) : i \in 0..(n - 1)}
       \cup {Pack(n, {m \in Dom(n) : (m * 7 + 3) % 5 < 2}), Pack(n, {m \in Dom(n) : PopCount(m) % 3 = 1})}

TopTabs ==
  IF FULL THEN WFTabs(MaxN)
  ELSE IF 2^(2^MaxN) <= 65536 THEN {t \in WFTabs(MaxN) : Weight(t) % 16 = 3}
  ELSE Partners(MaxN) \cup {FlipK(MaxN, t, i) : t \in Partners(MaxN), i \in 0..(MaxN - 1)}
                      \cup {XorK(t, u) : t \in Partners(MaxN), u \in Partners(MaxN)}
Init == IF PART = "ctors" THEN st \in {[n |-> n, t |-> FillZero(n)] : n \in 0..MaxN}
        ELSE st \in (UNION {{[n |-> n, t |-> t] : t \in WFTabs(n)} : n \in 0..(MaxN - 1)})
                     \cup {[n |-> MaxN, t |-> t] : t \in TopTabs}

A(n, t) == Abs(n, t)
SameFn(n, t, f) == WellFormed(n, t) /\ A(n, t) = f

Logic(n, t) ==
  /\ SameFn(n, NotK(n, t), FnNot(n, A(n, t)))
  /\ \A u \in Partners(n) :
       /\ SameFn(n, AndK(t, u), FnAnd(A(n, t), A(n, u)))
       /\ SameFn(n, OrK(t, u), FnOr(A(n, t), A(n, u)))
       /\ SameFn(n, XorK(t, u), FnXor(A(n, t), A(n, u)))

Transforms(n, t) ==
  /\ \A i \in 0..(n - 1) :
       /\ SameFn(n, FlipK(n, t, i), Flip(n, A(n, t), i))
       /\ SameFn(n, Cofactor0K(n, t, i), Cof0(n, A(n, t), i))
       /\ SameFn(n, Cofactor1K(n, t, i), Cof1(n, A(n, t), i))
       \* Shannon recomposition
       /\ FromCofactorsK(n, Cofactor0K(n, t, i), Cofactor1K(n, t, i), i) = t
       /\ \A u \in Partners(n) : SameFn(n, FromCofactorsK(n, t, u, i), FromCof(n, A(n, t), A(n, u), i))
       /\ \A j \in 0..(n - 1) : SameFn(n, SwapK(n, t, i, j), Swap(n, A(n, t), i, j))

Order(n, t) ==
  /\ \A u \in Partners(n) : CmpK(t, u) = CmpFn(A(n, t), A(n, u))
  /\ LET nx == NextK(n, t)
         sx == Succ(n, A(n, t))
     IN nx.ok = sx.ok /\ SameFn(n, nx.tab, sx.on)
  \* bits get / set / unset
  /\ \A m \in Dom(n) :
       /\ GetBit(t, m) = (m \in A(n, t))
       /\ SameFn(n, SetBitK(t, m), A(n, t) \cup {m})
       /\ SameFn(n, UnsetBitK(t, m), A(n, t) \ {m})

Decomp(n, t) ==
  \A v \in 0..(n - 1) :
    /\ TopDecompositionK(n, t, v) = DecompClass(n, A(n, t), v)
    /\ InputProperty(n, t, v, "pos") = PosUnate(n, A(n, t), v)
    /\ InputProperty(n, t, v, "neg") = NegUnate(n, A(n, t), v)

TextK(n, t) ==
  /\ ToHexK(n, t) = ToHex(n, A(n, t))
  /\ ToBinK(n, t) = ToBin(n, A(n, t))
  /\ LET r == FillHexK(n, ToHex(n, A(n, t))) IN r.ok /\ r.tab = t
  /\ ParseOK(n, ToHex(n, A(n, t))) /\ ParsedSet(n, ToHex(n, A(n, t))) = A(n, t)

\* named constructors (independent of the table: evaluated once per size, on the zero table)
Ctors(n, t) ==
  t # FillZero(n) \/
  /\ SameFn(n, FillZero(n), {}) /\ SameFn(n, FillOne(n), Dom(n))
  /\ \A i \in 0..(n - 1) : SameFn(n, FillNthVar(n, i), NthVar(n, i))
  /\ SameFn(n, FillParity(n), Parity(n)) /\ SameFn(n, FillMajority(n), Majority(n))
  /\ \A k \in 0..(n + 3) : SameFn(n, FillEquals(n, k), Equals(n, k)) /\ SameFn(n, FillThreshold(n, k), Threshold(n, k))
  /\ \A C \in SUBSET (0..(n + 1)) : SameFn(n, FillSymmetric(n, C), Symmetric(n, C))

\* pack / abstraction are inverse on well-formed tables (sanity of the refinement mapping itself)
AbsOK(n, t) == Pack(n, Abs(n, t)) = t

Oblig(n, t) ==
  AbsOK(n, t) /\
  CASE PART = "logic" -> Logic(n, t)
    [] PART = "transforms" -> Transforms(n, t)
    [] PART = "order" -> Order(n, t)
    [] PART = "decomp" -> Decomp(n, t)
    [] PART = "text" -> TextK(n, t)
    [] PART = "ctors" -> Ctors(n, t)

Next == Assert(Oblig(st.n, st.t), <<"kernel does not refine the specification", PART, st>>) /\ UNCHANGED st
Spec == Init /\ [][Next]_st

=============================================================================
