---------------------------- MODULE MC_TwoLevel ----------------------------
(***************************************************************************)
(* C12 - C16 at the model level, over all cubes / exclusive cubes of N     *)
(* variables and all lists of up to MaxLen of them:                        *)
(*  - semantic and syntactic implication / intersection coincide; cube     *)
(*    equality is semantic; conjunction denotes the meet;                  *)
(*  - the Sop operations as the code performs them (sort, dedup,           *)
(*    absorption; product of complemented literals) denote AND / OR / NOT  *)
(*    and return irredundant covers;                                       *)
(*  - the Esop sweep yields exactly the ANF cubes;                         *)
(*  - the Display impls print text that the grammar of C16 parses back to  *)
(*    the same function, with increasing variables and distinct text.      *)
(***************************************************************************)
EXTENDS Integers, FiniteSets, Sequences, TLC, BoolFn, TwoLevel
LOCAL SQM == INSTANCE SequencesExt

CONSTANTS N, MaxLen
VARIABLE st     \* [k |-> "cubes" | "fn" | "ecubes", v |-> ...]

Cubes == AllCubes(N)
V == 0..(N - 1)
Lists(S) == UNION {[1..k -> S] : k \in 0..MaxLen}
Init == st \in {[k |-> "cubes", v |-> l] : l \in Lists(Cubes)}
               \cup {[k |-> "pair", v |-> <<a, b>>] : a \in Cubes \cup {CubeZero}, b \in Cubes \cup {CubeZero}}
               \cup {[k |-> "fn", v |-> f] : f \in SUBSET Dom(N)}
               \cup {[k |-> "ecubes", v |-> l] : l \in UNION {[1..k -> AllEcubes(N)] : k \in 0..MaxLen}}

PairOblig(a, b) ==
  /\ ImpliesSem(a, b, V) = ImpliesSyn(a, b)
  /\ IntersectsSem(a, b, V) = IntersectsSyn(a, b)
  /\ (a = b) = (CubeSat(a, V) = CubeSat(b, V))                       \* equality is semantic
  /\ CubeFn(CubeAnd(a, b), N) = CubeFn(a, N) \cap CubeFn(b, N)
  /\ CubeFnX(a, N) = CubeFn(a, N)                                    \* the enumerating form of the denotation
  /\ N >= 1 => CubeFnX(a, N - 1) = CubeFn(a, N - 1)                  \* ... also with literals beyond the size
  /\ IntersectsSyn(a, b) = (CubeAnd(a, b) # CubeZero)
  /\ CubeNumLits(a) = (IF a = CubeZero THEN 0 ELSE Cardinality(a.p) + Cardinality(a.q))

CubesOblig(l) ==
  LET f == SopFn(N, l)
      other == [k \in 1..Len(l) |-> l[Len(l) + 1 - k]]          \* the list reversed, as a second operand
      sub == IF Len(l) = 0 THEN l ELSE SubSeq(l, 1, 1)
      smp == SopSimplify(l)
      neg == SopNotK(l)
      cnj == SopAndK(l, sub)
      dsj == SopOrK(l, sub)
  IN /\ SopFnX(N, l) = f /\ EsopFnX(N, l) = EsopFn(N, l)
     /\ SopFn(N, smp) = f /\ Irredundant(smp)
     /\ SopFn(N, neg) = Dom(N) \ f /\ Irredundant(neg)
     /\ SopFn(N, cnj) = f \cap SopFn(N, sub) /\ Irredundant(cnj)
     /\ SopFn(N, dsj) = f \cup SopFn(N, sub) /\ Irredundant(dsj)
     /\ SopFn(N, SopOrK(l, other)) = f
     /\ (smp = <<>>) = (f = {})                                   \* is_zero exactly for constant zero
     /\ (Len(smp) >= 1 /\ smp[1] = CubeOne) => f = Dom(N)          \* is_one only for constant one
     \* text of the forms (Sop and Esop share the cube printer)
     /\ TextParses(SopText(l)) /\ TextFn(SopText(l), N) = f /\ TextIncreasing(SopText(l))
     /\ TextParses(EsopText(l)) /\ TextFn(EsopText(l), N) = EsopFn(N, l)
     /\ \A j, k \in 1..Len(l) : l[j] # l[k] => CubeText(l[j]) # CubeText(l[k])

FnOblig(f) ==
  LET cs == EsopSweep(N, f) IN
  /\ Len(cs) = Cardinality(PprmCubes(N, f)) /\ SeqSet(cs) = PprmCubes(N, f)
  /\ EsopFn(N, cs) = f
  /\ IsMintermCover(N, f, [k \in 1..Cardinality(f) |-> Minterm(N, AsSet(SQM!SetToSeq(f)[k], N))])

EcubesOblig(l) ==
  /\ TextParses(SoesText(l)) /\ TextFn(SoesText(l), N) = SoesFn(N, l)
  /\ \A k \in 1..Len(l) : XorListIncreasing(EcubeText(l[k])) /\ TextFn(EcubeText(l[k]), N) = EcubeFn(l[k], N)
  /\ \A j, k \in 1..Len(l) : l[j] # l[k] => EcubeText(l[j]) # EcubeText(l[k])
  /\ \A j, k \in 1..Len(l) : EcubeFn(EcubeXor(l[j], l[k]), N) = SymDiff(EcubeFn(l[j], N), EcubeFn(l[k], N))

Oblig ==
  CASE st.k = "cubes" -> CubesOblig(st.v)
    [] st.k = "pair" -> PairOblig(st.v[1], st.v[2])
    [] st.k = "fn" -> FnOblig(st.v)
    [] st.k = "ecubes" -> EcubesOblig(st.v)
Next == Assert(Oblig, <<"two-level model", st>>) /\ UNCHANGED st
Spec == Init /\ [][Next]_st
=============================================================================
