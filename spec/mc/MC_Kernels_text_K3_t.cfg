SPECIFICATION Spec
CONSTANTS
  K = 3
  MaxN = 4
  FULL = TRUE
  PART = "text"
CHECK_DEADLOCK FALSE
