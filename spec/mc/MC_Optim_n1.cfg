SPECIFICATION Spec
CONSTANTS
  N = 1
  MaxOut = 2
CHECK_DEADLOCK FALSE
