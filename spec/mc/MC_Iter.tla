------------------------------- MODULE MC_Iter -------------------------------
(***************************************************************************)
(* C08, the iterator as a state machine over the word-level successor      *)
(* kernel (word size 2^K): all_functions(N) starts at constant zero, every *)
(* step is the numeric successor (carries across words included), every    *)
(* function is produced exactly once in increasing order, and the run      *)
(* terminates (liveness, checked under weak fairness without any state     *)
(* constraint).                                                            *)
(***************************************************************************)
EXTENDS Kernels

CONSTANT N
VARIABLES lut, ok, yielded       \* the iterator's fields, and how many items it has returned
vars == <<lut, ok, yielded>>

Value(t) == SumSet({2^m : m \in Abs(N, t)})        \* the table as a number (N <= 4)

Init == lut = FillZero(N) /\ ok = TRUE /\ yielded = 0
\* Iterator::next: return the current table, then advance
IterNext == /\ ok
            /\ yielded' = yielded + 1
            /\ \E nx \in {NextK(N, lut)} : lut' = nx.tab /\ ok' = nx.ok
Spec == Init /\ [][IterNext]_vars /\ WF_vars(IterNext)

\* the k-th item is the number k (so: increasing, successor steps, each function once)
ItemIsCount == ok => (Value(lut) = yielded /\ WellFormed(N, lut))
\* after the last item the table has wrapped to zero and exactly 2^(2^N) items were returned
DoneOK == ~ok => (yielded = 2^(2^N) /\ lut = FillZero(N))
Terminates == <>(~ok)

\* Iterator::nth as the standard library provides it (k + 1 calls of next, the last one returned) against the
\* arithmetic statement of the specification (BoolFn!IterNth: AddTab, Succ), from every state of the run
RECURSIVE DefaultNth(_, _, _)
DefaultNth(t, o, k) ==      \* [tab, ok, some, item]
  IF ~o THEN [tab |-> t, ok |-> FALSE, some |-> FALSE, item |-> {}]
  ELSE LET nx == NextK(N, t) IN
       IF k = 0 THEN [tab |-> nx.tab, ok |-> nx.ok, some |-> TRUE, item |-> Abs(N, t)]
       ELSE DefaultNth(nx.tab, nx.ok, k - 1)
Jumps == {0, 1, 2, 5, 2^(2^N) - yielded - 1, 2^(2^N) - yielded, 2^(2^N) - yielded + 1}
NthOK == \A k \in {j \in Jumps : j >= 0 /\ j <= 40} :
           LET d == DefaultNth(lut, ok, k)
               a == IterNth(N, [cur |-> Abs(N, lut), ok |-> ok], k)
           IN /\ d.some = a.some /\ d.ok = a.ok
              /\ (d.some => d.item = a.item)
              /\ (d.ok => Abs(N, d.tab) = a.cur)
\* what count() will see from here
CountOK == ok => (SumSet({2^m : m \in CountFrom(N, Abs(N, lut))}) + yielded = 2^(2^N))
=============================================================================
