SPECIFICATION Spec
CONSTANTS
  K = 2
  MaxN = 4
  FULL = FALSE
  PART = "order"
CHECK_DEADLOCK FALSE
