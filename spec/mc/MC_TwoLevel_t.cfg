SPECIFICATION Spec
CONSTANTS
  N = 3
  MaxLen = 3
CHECK_DEADLOCK FALSE
