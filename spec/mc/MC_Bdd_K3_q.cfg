SPECIFICATION Spec
CONSTANTS
  K = 3
  MaxN = 3
  TopN = 3
CHECK_DEADLOCK FALSE
