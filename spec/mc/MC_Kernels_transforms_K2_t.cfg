SPECIFICATION Spec
CONSTANTS
  K = 2
  MaxN = 4
  FULL = TRUE
  PART = "transforms"
CHECK_DEADLOCK FALSE
