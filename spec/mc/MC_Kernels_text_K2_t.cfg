SPECIFICATION Spec
CONSTANTS
  K = 2
  MaxN = 4
  FULL = TRUE
  PART = "text"
CHECK_DEADLOCK FALSE
