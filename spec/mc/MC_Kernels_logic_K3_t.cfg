SPECIFICATION Spec
CONSTANTS
  K = 3
  MaxN = 4
  FULL = TRUE
  PART = "logic"
CHECK_DEADLOCK FALSE
