SPECIFICATION Spec
CONSTANTS
  K = 2
  MaxN = 4
  FULL = FALSE
  PART = "logic"
CHECK_DEADLOCK FALSE
