SPECIFICATION Spec
CONSTANTS
  N = 3
  MaxLen = 2
CHECK_DEADLOCK FALSE
