SPECIFICATION Spec
CONSTANTS
  K = 3
  MaxN = 4
  FULL = TRUE
  PART = "transforms"
CHECK_DEADLOCK FALSE
