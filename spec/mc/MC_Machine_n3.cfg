SPECIFICATION Spec
CONSTANTS
  N = 3
  NPARTNERS = 4
INVARIANT TypeOK
CHECK_DEADLOCK FALSE
