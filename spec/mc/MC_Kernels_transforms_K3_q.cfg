SPECIFICATION Spec
CONSTANTS
  K = 3
  MaxN = 4
  FULL = FALSE
  PART = "transforms"
CHECK_DEADLOCK FALSE
