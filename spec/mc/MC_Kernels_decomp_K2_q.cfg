SPECIFICATION Spec
CONSTANTS
  K = 2
  MaxN = 4
  FULL = FALSE
  PART = "decomp"
CHECK_DEADLOCK FALSE
