SPECIFICATION Spec
CONSTANTS
  K = 2
  MaxN = 4
  FULL = TRUE
  PART = "logic"
CHECK_DEADLOCK FALSE
