SPECIFICATION Spec
CONSTANTS
  K = 3
  MaxN = 4
  FULL = FALSE
  PART = "text"
CHECK_DEADLOCK FALSE
