SPECIFICATION Spec
CONSTANTS
  K = 3
  MaxN = 4
  FULL = TRUE
  PART = "order"
CHECK_DEADLOCK FALSE
