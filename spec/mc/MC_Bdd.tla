------------------------------- MODULE MC_Bdd -------------------------------
(***************************************************************************)
(* C07 at the model level: for every list of up to two functions of n <=   *)
(* MaxN variables (and every single function of TopN variables)             *)
(*   textbook ROBDD construction  =  slicing characterisation               *)
(*                                =  the code's per-level counting          *)
(*                                   (Kernels!TableComplexity, split at     *)
(*                                   level K),                              *)
(* the latter for the list in both orders, with a duplicate, and with one   *)
(* function complemented.                                                   *)
(***************************************************************************)
EXTENDS Kernels, Bdd

CONSTANTS MaxN, TopN
VARIABLE st      \* [n, fs]: a size and a set of one or two functions (on-sets)

Fns(n) == SUBSET Dom(n)
Init == st \in (UNION {{[n |-> n, fs |-> {f, g}] : f \in Fns(n), g \in Fns(n)} : n \in 0..MaxN})
               \cup {[n |-> TopN, fs |-> {f}] : f \in Fns(TopN)}
               \cup {[n |-> n, fs |-> {}] : n \in 0..MaxN}

Lists(n, fs) ==
  IF fs = {} THEN {<<>>}
  ELSE LET f == CHOOSE x \in fs : TRUE
           g == IF Cardinality(fs) = 1 THEN f ELSE CHOOSE x \in fs : x # f
           pf == Pack(n, f)
           pg == Pack(n, g)
       IN {<<pf, pg>>, <<pg, pf>>, <<pf, pg, pf>>, <<NotK(n, pf), pg>>, <<pg, NotK(n, pg), pf>>}

Oblig(n, fs) ==
  LET r == RobddNodes(n, fs) IN
  /\ SliceNodes(n, fs) = r
  /\ \A l \in Lists(n, fs) : TableComplexity(n, l) = r
  /\ fs = {} => r = 0

Next == Assert(Oblig(st.n, st.fs), <<"BDD counts disagree", st>>) /\ UNCHANGED st
Spec == Init /\ [][Next]_st
=============================================================================
