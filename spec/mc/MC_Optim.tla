------------------------------ MODULE MC_Optim ------------------------------
(***************************************************************************)
(* C18 at the model level: the dynamic-programming optimum of Optim.tla    *)
(* equals the minimum of SolutionCost over ALL sound solutions (brute      *)
(* force over every assignment of subsets of the candidate terms to the    *)
(* outputs), for every list of 1..MaxOut functions of N variables and the  *)
(* given cost triples.  This validates the oracle that the trace           *)
(* validation of the optimizers relies on.                                 *)
(***************************************************************************)
EXTENDS Integers, FiniteSets, Sequences, TLC, BoolFn, TwoLevel, Optim

CONSTANTS N, MaxOut
VARIABLE st     \* [fs |-> sequence of on-sets, c |-> <<and, xor, or>>]

Costs == {<<1, 1, 1>>, <<1, 2, 3>>, <<3, 1, 2>>}
Fns == SUBSET Dom(N)
Init == st \in {[fs |-> fs, c |-> c] : fs \in UNION {[1..m -> Fns] : m \in 1..MaxOut}, c \in Costs}

\* all sound OR solutions: per output a set of implicant cubes (and exclusive cubes) covering it
OrSols(fs, withE) ==
  LET imp(j) == {c \in AllCubes(N) : CubeFn(c, N) \subseteq fs[j]}
      eimp(j) == IF withE THEN {e \in AllEcubes(N) : EcubeFn(e, N) \subseteq fs[j]} ELSE {}
      outs(j) == {[cubes |-> C, ecubes |-> E] : C \in SUBSET imp(j), E \in SUBSET eimp(j)}
      good(j) == {o \in outs(j) : (UNION {CubeFn(c, N) : c \in o.cubes}) \cup (UNION {EcubeFn(e, N) : e \in o.ecubes}) = fs[j]}
  IN IF Len(fs) = 1 THEN {<<a>> : a \in good(1)} ELSE {<<a, b>> : a \in good(1), b \in good(2)}
XorSols(fs) ==
  LET good(j) == {[cubes |-> C, ecubes |-> {}] : C \in {D \in SUBSET AllCubes(N) : EsopFn(N, SetAsSeq(D)) = fs[j]}}
  IN IF Len(fs) = 1 THEN {<<a>> : a \in good(1)} ELSE {<<a, b>> : a \in good(1), b \in good(2)}

Oblig(fs, c) ==
  /\ OptSop(N, fs, c[1], c[3]) = MinNat({SolutionCost(s, c[1], c[2], c[3], FALSE) : s \in OrSols(fs, FALSE)})
  /\ OptEsop(N, fs, c[1], c[2]) = MinNat({SolutionCost(s, c[1], c[2], c[3], TRUE) : s \in XorSols(fs)})
  /\ (Len(fs) = 1 \/ N <= 1) =>
       OptSopes(N, fs, c[1], c[2], c[3]) = MinNat({SolutionCost(s, c[1], c[2], c[3], FALSE) : s \in OrSols(fs, TRUE)})

Next == Assert(Oblig(st.fs, st.c), <<"optimum by DP differs from brute force", st>>) /\ UNCHANGED st
Spec == Init /\ [][Next]_st
=============================================================================
