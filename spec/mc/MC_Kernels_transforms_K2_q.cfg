SPECIFICATION Spec
CONSTANTS
  K = 2
  MaxN = 4
  FULL = FALSE
  PART = "transforms"
CHECK_DEADLOCK FALSE
