SPECIFICATION Spec
CONSTANTS
  K = 2
  MaxN = 6
  FULL = FALSE
  PART = "ctors"
CHECK_DEADLOCK FALSE
