----------------------------- MODULE MC_Machine -----------------------------
(***************************************************************************)
(* Bounded exploration of the API state machine of Volute.tla, used in the *)
(* spec -> implementation direction: every transition of the reachable     *)
(* state graph is printed as a one-step script (pre-state, call, expected  *)
(* outcome / post-state / observable) that the harness replays on the real *)
(* Lut and LutN types (`vdrive replay`).                                   *)
(*                                                                         *)
(* Two slots of N-variable tables: slot 0 evolves through every call, slot *)
(* 1 is the second operand and ranges over PARTNERS.                       *)
(***************************************************************************)
EXTENDS Volute, Json

CONSTANTS N,            \* number of variables
          NPARTNERS     \* how many second operands (0 = all functions)

VARIABLES slots
vars == <<slots>>

Partners ==
  IF NPARTNERS = 0 THEN SUBSET Dom(N)
  ELSE {{}, Dom(N), Parity(N), {m \in Dom(N) : (m * 5 + 1) % 3 = 0}}

Init == slots \in {[s \in 0..1 |-> IF s = 0 THEN Val(N, {}) ELSE Val(N, p)] : p \in Partners}

\* every call with every in-range argument (plus the first out-of-range index: expected panic)
Calls ==
     {[op |-> o, ty |-> "lut", d |-> 0, n |-> N] : o \in {"zero", "one", "parity", "majority"}}
  \cup {[op |-> "nth_var", ty |-> "lut", d |-> 0, n |-> N, i |-> i] : i \in 0..N}
  \cup {[op |-> o, ty |-> "lut", d |-> 0, n |-> N, k |-> k] : o \in {"threshold", "equals"}, k \in 0..(N + 1)}
  \cup {[op |-> "logic", ty |-> "lut", g |-> g, f |-> "named", a |-> a, b |-> b, d |-> 0] :
          g \in {"and", "or", "xor"}, a \in 0..1, b \in 0..1}
  \cup {[op |-> "logic", ty |-> "lut", g |-> "not", f |-> "named", a |-> a, b |-> a, d |-> 0] : a \in 0..1}
  \cup {[op |-> "flip", ty |-> "lut", f |-> "copy", a |-> a, d |-> 0, i |-> i] : a \in 0..1, i \in 0..N}
  \cup {[op |-> "swap", ty |-> "lut", f |-> "copy", a |-> 0, d |-> 0, i |-> i, j |-> j] : i \in 0..N, j \in 0..(N - 1)}
  \cup {[op |-> "swapadj", ty |-> "lut", f |-> "copy", a |-> 0, d |-> 0, i |-> i] : i \in 0..N}
  \cup {[op |-> "fromcof", ty |-> "lut", a |-> a, b |-> 1 - a, d |-> 0, i |-> i] : a \in 0..1, i \in 0..N}
  \cup {[op |-> "setbit", ty |-> "lut", a |-> 0, m |-> m, f |-> f] : m \in 0..(2^N), f \in {"set", "unset"}}
  \cup {[op |-> "vnext", ty |-> "lut", a |-> 0]}
  \cup {[op |-> "rel", ty |-> "lut", a |-> 0, b |-> 1, f |-> f] : f \in {"cmp", "eq", "lt"}}
  \cup {[op |-> "decomp", ty |-> "lut", a |-> 0, i |-> i] : i \in 0..N}
  \cup {[op |-> "text", ty |-> "lut", a |-> 0, f |-> "hex"]}
  \cup {[op |-> "bdd", ty |-> "lut", xs |-> <<0, 1>>]}

SetSeq(S) == [k \in 1..Cardinality(S) |-> CHOOSE x \in S : Cardinality({y \in S : y < x}) = k - 1]
TJ(v) == [n |-> v.n, on |-> SetSeq(v.on)]
Script(c, x, S2) ==
  [pre |-> <<TJ(slots[0]), TJ(slots[1])>>, call |-> c,
   out |-> CHOOSE o \in x.out : TRUE,
   post |-> <<TJ(S2[0]), TJ(S2[1])>>,
   r |-> CHOOSE o \in x.r : TRUE]

Next ==
  \E c \in Calls :
    \E x \in {Apply(c, slots, NoIter)} :
      \E S2 \in {IF "ok" \in x.out THEN x.w @@ slots ELSE slots} :
        /\ slots' = S2
        /\ PrintT("SCRIPT " \o ToJson(Script(c, x, S2)))

Spec == Init /\ [][Next]_vars

\* invariants of the machine: every reachable value is a well-formed N-variable function
TypeOK == \A s \in 0..1 : slots[s].n = N /\ slots[s].on \subseteq Dom(N)
=============================================================================
