SPECIFICATION Spec
CONSTANTS
  K = 2
  MaxN = 3
  TopN = 3
CHECK_DEADLOCK FALSE
