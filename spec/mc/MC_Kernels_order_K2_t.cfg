SPECIFICATION Spec
CONSTANTS
  K = 2
  MaxN = 4
  FULL = TRUE
  PART = "order"
CHECK_DEADLOCK FALSE
