SPECIFICATION Spec
CONSTANTS
  MaxN = 4
  SeqN = 8
CHECK_DEADLOCK FALSE
