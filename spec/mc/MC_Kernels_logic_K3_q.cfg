SPECIFICATION Spec
CONSTANTS
  K = 3
  MaxN = 4
  FULL = FALSE
  PART = "logic"
CHECK_DEADLOCK FALSE
