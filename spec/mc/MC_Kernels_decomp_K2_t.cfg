SPECIFICATION Spec
CONSTANTS
  K = 2
  MaxN = 4
  FULL = TRUE
  PART = "decomp"
CHECK_DEADLOCK FALSE
