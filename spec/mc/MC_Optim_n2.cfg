SPECIFICATION Spec
CONSTANTS
  N = 2
  MaxOut = 1
CHECK_DEADLOCK FALSE
