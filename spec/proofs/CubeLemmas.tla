---------------------------- MODULE CubeLemmas ----------------------------
(***************************************************************************)
(* Unbounded proofs (TLAPS) of the syntactic characterisations that        *)
(* TwoLevel.tla uses where quantifying over assignments is out of reach    *)
(* (cubes over 32 variables).  V is any set of variables; a cube is a pair *)
(* of subsets of V (positive and negative literals); an assignment is the  *)
(* set of variables it makes true.  mc/MC_TwoLevel checks the same         *)
(* equivalences by enumeration for |V| <= 4.                               *)
(***************************************************************************)
CONSTANT V

Cubes == [p : SUBSET V, q : SUBSET V]
CubeVal(c, M) == c.p \subseteq M /\ c.q \cap M = {}
Contradictory(c) == c.p \cap c.q # {}
ImpliesSem(a, b) == \A M \in SUBSET V : CubeVal(a, M) => CubeVal(b, M)
ImpliesSyn(a, b) == Contradictory(a) \/ (~Contradictory(b) /\ b.p \subseteq a.p /\ b.q \subseteq a.q)
IntersectsSem(a, b) == \E M \in SUBSET V : CubeVal(a, M) /\ CubeVal(b, M)
IntersectsSyn(a, b) == ~Contradictory(a) /\ ~Contradictory(b) /\ a.p \cap b.q = {} /\ a.q \cap b.p = {}
And(a, b) == [p |-> a.p \cup b.p, q |-> a.q \cup b.q]

LEMMA NeverTrue == \A c \in Cubes : Contradictory(c) => \A M \in SUBSET V : ~CubeVal(c, M)
  BY DEF Cubes, Contradictory, CubeVal

LEMMA Witness == \A c \in Cubes : ~Contradictory(c) => CubeVal(c, c.p) /\ CubeVal(c, V \ c.q)
  BY DEF Cubes, Contradictory, CubeVal

THEOREM ImpliesChar == \A a, b \in Cubes : ImpliesSem(a, b) <=> ImpliesSyn(a, b)
<1> SUFFICES ASSUME NEW a \in Cubes, NEW b \in Cubes
             PROVE  ImpliesSem(a, b) <=> ImpliesSyn(a, b)
  OBVIOUS
<1>1. ImpliesSyn(a, b) => ImpliesSem(a, b)
  <2>1. CASE Contradictory(a)
    BY <2>1, NeverTrue DEF ImpliesSem
  <2>2. CASE ~Contradictory(a) /\ ~Contradictory(b) /\ b.p \subseteq a.p /\ b.q \subseteq a.q
    BY <2>2 DEF ImpliesSem, CubeVal, Cubes
  <2> QED BY <2>1, <2>2 DEF ImpliesSyn
<1>2. ImpliesSem(a, b) => ImpliesSyn(a, b)
  <2> SUFFICES ASSUME ImpliesSem(a, b), ~Contradictory(a)
               PROVE  ~Contradictory(b) /\ b.p \subseteq a.p /\ b.q \subseteq a.q
    BY DEF ImpliesSyn
  <2>1. a.p \in SUBSET V /\ (V \ a.q) \in SUBSET V
    BY DEF Cubes
  <2>2. CubeVal(a, a.p) /\ CubeVal(a, V \ a.q)
    BY Witness
  <2>3. CubeVal(b, a.p) /\ CubeVal(b, V \ a.q)
    BY <2>1, <2>2 DEF ImpliesSem
  <2>4. b.p \subseteq a.p /\ b.q \cap a.p = {}
    BY <2>3 DEF CubeVal
  <2>5. b.q \subseteq a.q
    BY <2>3 DEF CubeVal, Cubes
  <2>6. ~Contradictory(b)
    BY <2>4 DEF Contradictory, Cubes
  <2> QED BY <2>4, <2>5, <2>6
<1> QED BY <1>1, <1>2

THEOREM AndIsMeet == \A a, b \in Cubes : \A M \in SUBSET V : CubeVal(And(a, b), M) <=> (CubeVal(a, M) /\ CubeVal(b, M))
  BY DEF Cubes, CubeVal, And

THEOREM IntersectsChar == \A a, b \in Cubes : IntersectsSem(a, b) <=> IntersectsSyn(a, b)
<1> SUFFICES ASSUME NEW a \in Cubes, NEW b \in Cubes
             PROVE  IntersectsSem(a, b) <=> IntersectsSyn(a, b)
  OBVIOUS
<1>1. IntersectsSem(a, b) => IntersectsSyn(a, b)
  BY DEF IntersectsSem, IntersectsSyn, CubeVal, Contradictory, Cubes
<1>2. IntersectsSyn(a, b) => IntersectsSem(a, b)
  <2> SUFFICES ASSUME IntersectsSyn(a, b) PROVE IntersectsSem(a, b)
    OBVIOUS
  <2>1. (a.p \cup b.p) \in SUBSET V
    BY DEF Cubes
  <2>2. CubeVal(a, a.p \cup b.p) /\ CubeVal(b, a.p \cup b.p)
    BY DEF IntersectsSyn, CubeVal, Contradictory, Cubes
  <2> QED BY <2>1, <2>2 DEF IntersectsSem
<1> QED BY <1>1, <1>2

\* cube equality is semantic equality (for cubes that are not contradictory)
THEOREM EqualityIsSemantic ==
  \A a, b \in Cubes : ~Contradictory(a) /\ ~Contradictory(b) =>
     ((\A M \in SUBSET V : CubeVal(a, M) <=> CubeVal(b, M)) <=> a = b)
<1> SUFFICES ASSUME NEW a \in Cubes, NEW b \in Cubes, ~Contradictory(a), ~Contradictory(b),
                    \A M \in SUBSET V : CubeVal(a, M) <=> CubeVal(b, M)
             PROVE  a = b
  OBVIOUS
<1>1. ImpliesSem(a, b) /\ ImpliesSem(b, a)
  BY DEF ImpliesSem
<1>2. ImpliesSyn(a, b) /\ ImpliesSyn(b, a)
  BY <1>1, ImpliesChar
<1>3. a.p = b.p /\ a.q = b.q
  BY <1>2 DEF ImpliesSyn
<1> QED BY <1>3 DEF Cubes

-----------------------------------------------------------------------------
(* Sums of products as sets of cubes: the algebra behind Sop::or / and / not / simplify (C14), for any V *)
SopVal(S, M) == \E c \in S : CubeVal(c, M)
NegCube(c) == {[p |-> {}, q |-> {v}] : v \in c.p} \cup {[p |-> {v}, q |-> {}] : v \in c.q}

THEOREM OrIsUnion == \A S, T \in SUBSET Cubes : \A M \in SUBSET V :
                        SopVal(S \cup T, M) <=> (SopVal(S, M) \/ SopVal(T, M))
  BY DEF SopVal

Products(S, T) == UNION {{And(s, t) : t \in T} : s \in S}
THEOREM AndDistributes == \A S, T \in SUBSET Cubes : \A M \in SUBSET V :
                        SopVal(Products(S, T), M) <=> (SopVal(S, M) /\ SopVal(T, M))
<1> SUFFICES ASSUME NEW S \in SUBSET Cubes, NEW T \in SUBSET Cubes, NEW M \in SUBSET V
             PROVE  SopVal(Products(S, T), M) <=> (SopVal(S, M) /\ SopVal(T, M))
  OBVIOUS
<1>1. \A s \in S, t \in T : CubeVal(And(s, t), M) <=> (CubeVal(s, M) /\ CubeVal(t, M))
  BY AndIsMeet
<1>2. ASSUME SopVal(Products(S, T), M) PROVE SopVal(S, M) /\ SopVal(T, M)
  <2>1. PICK c \in Products(S, T) : CubeVal(c, M)
    BY <1>2 DEF SopVal
  <2>2. PICK s \in S, t \in T : c = And(s, t)
    BY <2>1 DEF Products
  <2>3. CubeVal(s, M) /\ CubeVal(t, M)
    BY <2>1, <2>2, <1>1
  <2> QED BY <2>3 DEF SopVal
<1>3. ASSUME SopVal(S, M), SopVal(T, M) PROVE SopVal(Products(S, T), M)
  <2>1. PICK s \in S : CubeVal(s, M)
    BY <1>3 DEF SopVal
  <2>2. PICK t \in T : CubeVal(t, M)
    BY <1>3 DEF SopVal
  <2>3. And(s, t) \in Products(S, T)
    BY DEF Products
  <2>4. CubeVal(And(s, t), M)
    BY <2>1, <2>2, <1>1
  <2> QED BY <2>3, <2>4 DEF SopVal
<1> QED BY <1>2, <1>3

THEOREM DropContradictory == \A S \in SUBSET Cubes : \A M \in SUBSET V :
                        SopVal({c \in S : ~Contradictory(c)}, M) <=> SopVal(S, M)
  BY NeverTrue DEF SopVal

\* a cube that implies another cube of the list can be dropped (the absorption pass of simplify)
THEOREM AbsorptionSound == \A S \in SUBSET Cubes : \A c, o \in S : \A M \in SUBSET V :
                        c # o /\ ImpliesSyn(c, o) => (SopVal(S \ {c}, M) <=> SopVal(S, M))
<1> SUFFICES ASSUME NEW S \in SUBSET Cubes, NEW c \in S, NEW o \in S, NEW M \in SUBSET V,
                    c # o, ImpliesSyn(c, o)
             PROVE  SopVal(S \ {c}, M) <=> SopVal(S, M)
  OBVIOUS
<1>1. CubeVal(c, M) => CubeVal(o, M)
  BY ImpliesChar DEF ImpliesSem
<1>2. o \in S \ {c}
  OBVIOUS
<1> QED BY <1>1, <1>2 DEF SopVal

\* the complement of a cube is the sum of its complemented literals (one factor of Sop::not)
THEOREM NegCubeIsComplement == \A c \in Cubes : \A M \in SUBSET V : SopVal(NegCube(c), M) <=> ~CubeVal(c, M)
<1> SUFFICES ASSUME NEW c \in Cubes, NEW M \in SUBSET V
             PROVE  SopVal(NegCube(c), M) <=> ~CubeVal(c, M)
  OBVIOUS
<1>1. SopVal(NegCube(c), M) <=> ((\E v \in c.p : v \notin M) \/ (\E v \in c.q : v \in M))
  BY DEF SopVal, NegCube, CubeVal
<1>2. ~CubeVal(c, M) <=> ((\E v \in c.p : v \notin M) \/ (\E v \in c.q : v \in M))
  BY DEF CubeVal
<1> QED BY <1>1, <1>2
=============================================================================
