CONSTANTS N = 3
 NOUT = 2
 BOUND = 7
 ANDC = 1
 XORC = 1
SPECIFICATION Spec
INVARIANT NoCheaper
CHECK_DEADLOCK FALSE
