---- MODULE Proto ----
EXTENDS Naturals, FiniteSets, Sequences, TLC
CONSTANTS K, N   \* log2(word bits), number of variables
W == 2^K
NW == IF N > K THEN 2^(N-K) ELSE 1
Bit(m, i) == (m \div (2^i)) % 2 = 1
VarMask(i) == {b \in 0..W-1 : Bit(b, i)}
NumVarsMask(n) == 0..(2^(IF n < K THEN n ELSE K) - 1)
SwapMask(i, j) == {b \in 0..W-1 : Bit(b, j) /\ ~Bit(b, i)}
Shl(w, s) == {b + s : b \in {x \in w : x + s < W}}
Shr(w, s) == {b - s : b \in {x \in w : x >= s}}
AllW == 0..W-1
NotW(w) == AllW \ w
RECURSIVE Add(_, _)
Add(a, b) == IF a \cap b = {} THEN a \cup b
             ELSE Add((a \cup b) \ (a \cap b), Shl(a \cap b, 1))
\* table: [0..NW-1 -> SUBSET AllW]
FlipK(t, ind) ==
  IF ind < K THEN
    [k \in 0..NW-1 |-> Add(Shr(t[k] \cap VarMask(ind), 2^ind), Shl(t[k] \cap NotW(VarMask(ind)), 2^ind))]
  ELSE LET stride == 2^(ind-K) IN
    [k \in 0..NW-1 |-> IF Bit(k, ind-K) THEN t[k - stride] ELSE t[k + stride]]
SwapK(t, i1, i2) ==
  IF i1 = i2 THEN t ELSE
  LET i == IF i1 > i2 THEN i1 ELSE i2
      j == IF i1 > i2 THEN i2 ELSE i1 IN
  IF i < K THEN
    LET shift == 2^i - 2^j
        ml == SwapMask(i, j)
        mr == Shl(ml, shift) IN
    [k \in 0..NW-1 |-> Add(Add((t[k] \cap NotW(ml)) \cap NotW(mr), Shl(t[k] \cap ml, shift)), Shr(t[k] \cap mr, shift))]
  ELSE IF j < K THEN
    LET mi == 2^(i-K)
        mask == VarMask(j)
        shift == 2^j IN
    [k \in 0..NW-1 |->
       IF ~Bit(k, i-K) THEN
          Add(t[k] \cap NotW(mask), Shl(t[k+mi] \cap NotW(mask), shift))
       ELSE
          Add(Shr(t[k-mi] \cap mask, shift), Shl(Shr(t[k] \cap mask, shift), shift))]
  ELSE
    LET mi == 2^(i-K)
        mj == 2^(j-K) IN
    [k \in 0..NW-1 |->
       IF ~Bit(k, i-K) /\ Bit(k, j-K) THEN t[k - mj + mi]
       ELSE IF Bit(k, i-K) /\ ~Bit(k, j-K) THEN t[k - mi + mj]
       ELSE t[k]]
\* abstraction: on-set
Abs(t) == UNION {{k*W + b : b \in t[k]} : k \in 0..NW-1}
FlipBit(m, i) == IF Bit(m, i) THEN m - 2^i ELSE m + 2^i
SwapBits(m, i, j) == IF Bit(m, i) = Bit(m, j) THEN m ELSE FlipBit(FlipBit(m, i), j)
AbsFlip(f, i) == {m \in 0..2^N-1 : FlipBit(m, i) \in f}
AbsSwap(f, i, j) == {m \in 0..2^N-1 : SwapBits(m, i, j) \in f}
WF(t) == \A k \in 0..NW-1 : t[k] \subseteq NumVarsMask(N)
VARIABLE t
Init == t \in [0..NW-1 -> SUBSET NumVarsMask(N)]
Next == UNCHANGED t
Inv == /\ \A i \in 0..N-1 : /\ Abs(FlipK(t, i)) = AbsFlip(Abs(t), i)
                            /\ WF(FlipK(t,i))
       /\ \A i, j \in 0..N-1 : /\ Abs(SwapK(t, i, j)) = AbsSwap(Abs(t), i, j)
                               /\ WF(SwapK(t, i, j))
====
