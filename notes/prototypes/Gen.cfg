CONSTANTS N = 3
SPECIFICATION Spec
CHECK_DEADLOCK FALSE
