CONSTANTS N = 3
 FIXED = TRUE
SPECIFICATION Spec
INVARIANT MinOK
INVARIANT BackHome
INVARIANT CertOK
CHECK_DEADLOCK FALSE
