---- MODULE Rnd ----
EXTENDS Naturals, FiniteSets, Sequences, TLC, Json, IOUtils
Rec == ndJsonDeserialize(IOEnv.TRACE)
ToSet(js) == {js[x] : x \in 1..Len(js)}
VARIABLES l, draws
Init == l = 1 /\ draws = <<>>
Step == /\ l <= Len(Rec) /\ l' = l + 1 /\ draws' = Append(draws, ToSet(Rec[l].on))
BatchOK(n, ds) ==
  LET D == 1..Len(ds)
      Sig(p) == {d \in D : p \in ds[d]}
      sigs == [p \in 0..2^n-1 |-> Sig(p)]
      S == {sigs[p] : p \in 0..2^n-1}
      C == {D \ sigs[p] : p \in 0..2^n-1} IN
  /\ \A p \in 0..2^n-1 : sigs[p] # {} /\ sigs[p] # D          \* both values seen
  /\ Cardinality(S) = 2^n                                       \* no two positions always equal
  /\ S \cap C = {}                                               \* no two positions always opposite
  /\ Cardinality({ds[d] : d \in D}) = Len(ds)                   \* pairwise distinct draws
  /\ \A d \in D : ds[d] \subseteq 0..2^n-1
Finish == /\ l = Len(Rec) + 1 /\ l' = l + 1 /\ UNCHANGED draws
          /\ PrintT(<<"BATCH", BatchOK(12, draws)>>)
Spec == Init /\ [][Step \/ Finish]_<<l, draws>>
====
