---- MODULE Gen ----
EXTENDS Naturals, FiniteSets, Sequences, TLC, Json
CONSTANT N
Dom == 0..2^N-1
Bit(m, i) == (m \div (2^i)) % 2 = 1
FlipBit(m, i) == IF Bit(m, i) THEN m - 2^i ELSE m + 2^i
AbsFlip(f, i) == {m \in Dom : FlipBit(m, i) \in f}
NthVar(i) == {m \in Dom : Bit(m, i)}
VARIABLES a, b
Emit(op, args, pre, post) == PrintT("SCRIPT " \o ToJson([op |-> op, args |-> args, pre |-> pre, post |-> post]))
SetSeq(S) == LET RECURSIVE G(_, _) 
                 G(k, acc) == IF k > 2^N - 1 THEN acc ELSE G(k+1, IF k \in S THEN Append(acc, k) ELSE acc) IN G(0, <<>>)
Init == a = {} /\ b = {}
Flip == \E i \in 0..N-1 : /\ a' = AbsFlip(a, i) /\ b' = b /\ Emit("flip", <<i>>, <<SetSeq(a), SetSeq(b)>>, <<SetSeq(a')>>)
And == /\ a' = a \cap b /\ b' = b /\ Emit("and", <<>>, <<SetSeq(a), SetSeq(b)>>, <<SetSeq(a')>>)
Xor == /\ a' = (a \ b) \cup (b \ a) /\ b' = b /\ Emit("xor", <<>>, <<SetSeq(a), SetSeq(b)>>, <<SetSeq(a')>>)
Not == /\ a' = Dom \ a /\ b' = b /\ Emit("not", <<>>, <<SetSeq(a), SetSeq(b)>>, <<SetSeq(a')>>)
Var == \E i \in 0..N-1 : /\ b' = NthVar(i) /\ a' = a /\ Emit("nth_var", <<i>>, <<SetSeq(a), SetSeq(b)>>, <<SetSeq(b')>>)
Swp == /\ a' = b /\ b' = a /\ Emit("swapregs", <<>>, <<SetSeq(a), SetSeq(b)>>, <<SetSeq(a')>>)
Next == Flip \/ And \/ Xor \/ Not \/ Var \/ Swp
Spec == Init /\ [][Next]_<<a, b>>
====
