---- MODULE PTrace ----
EXTENDS Naturals, FiniteSets, Sequences, TLC, Json, IOUtils
K == 6
W == 2^K
NWof(n) == IF n > K THEN 2^(n-K) ELSE 1
Bit(m, i) == (m \div (2^i)) % 2 = 1
VarMaskT == [i \in 0..K-1 |-> {b \in 0..W-1 : Bit(b, i)}]
VarMask(i) == VarMaskT[i]
NumVarsMask(n) == 0..(2^(IF n < K THEN n ELSE K) - 1)
SwapMaskT == [i \in 0..K-1 |-> [j \in 0..K-1 |-> {b \in 0..W-1 : Bit(b, j) /\ ~Bit(b, i)}]]
SwapMask(i, j) == SwapMaskT[i][j]
Shl(w, s) == {b + s : b \in {x \in w : x + s < W}}
Shr(w, s) == {b - s : b \in {x \in w : x >= s}}
AllW == 0..W-1
NotW(w) == AllW \ w
RECURSIVE Add(_, _)
Add(a, b) == IF a \cap b = {} THEN a \cup b
             ELSE Add((a \cup b) \ (a \cap b), Shl(a \cap b, 1))
FlipK(n, t, ind) == LET NW == NWof(n) IN
  IF ind < K THEN
    [k \in 0..NW-1 |-> Add(Shr(t[k] \cap VarMask(ind), 2^ind), Shl(t[k] \cap NotW(VarMask(ind)), 2^ind))]
  ELSE LET stride == 2^(ind-K) IN
    [k \in 0..NW-1 |-> IF Bit(k, ind-K) THEN t[k - stride] ELSE t[k + stride]]
SwapK(n, t, i1, i2) == LET NW == NWof(n) IN
  IF i1 = i2 THEN t ELSE
  LET i == IF i1 > i2 THEN i1 ELSE i2
      j == IF i1 > i2 THEN i2 ELSE i1 IN
  IF i < K THEN
    LET shift == 2^i - 2^j
        ml == SwapMask(i, j)
        mr == Shl(ml, shift) IN
    [k \in 0..NW-1 |-> Add(Add((t[k] \cap NotW(ml)) \cap NotW(mr), Shl(t[k] \cap ml, shift)), Shr(t[k] \cap mr, shift))]
  ELSE IF j < K THEN
    LET mi == 2^(i-K)
        mask == VarMask(j)
        shift == 2^j IN
    [k \in 0..NW-1 |->
       IF ~Bit(k, i-K) THEN
          Add(t[k] \cap NotW(mask), Shl(t[k+mi] \cap NotW(mask), shift))
       ELSE
          Add(Shr(t[k-mi] \cap mask, shift), Shl(Shr(t[k] \cap mask, shift), shift))]
  ELSE
    LET mi == 2^(i-K)
        mj == 2^(j-K) IN
    [k \in 0..NW-1 |->
       IF ~Bit(k, i-K) /\ Bit(k, j-K) THEN t[k - mj + mi]
       ELSE IF Bit(k, i-K) /\ ~Bit(k, j-K) THEN t[k - mi + mj]
       ELSE t[k]]
Abs(n, t) == UNION {{k*W + b : b \in t[k]} : k \in 0..NWof(n)-1}
FlipBit(m, i) == IF Bit(m, i) THEN m - 2^i ELSE m + 2^i
SwapBits(m, i, j) == IF Bit(m, i) = Bit(m, j) THEN m ELSE FlipBit(FlipBit(m, i), j)
AbsFlip(n, f, i) == {m \in 0..2^n-1 : FlipBit(m, i) \in f}
AbsSwap(n, f, i, j) == {m \in 0..2^n-1 : SwapBits(m, i, j) \in f}
\* JSON table (1-based seq of seq of ints) -> table
ToTable(n, js) == [k \in 0..NWof(n)-1 |-> {js[k+1][x] : x \in 1..Len(js[k+1])}]
Rec == ndJsonDeserialize(IOEnv.TRACE)
VARIABLE l
Init == l = 1
Step == /\ l <= Len(Rec)
        /\ LET e == Rec[l]
               a == ToTable(e.n, e.a)
               r == ToTable(e.n, e.r) IN
           IF e.op = "flip" THEN /\ FlipK(e.n, a, e.i) = r
                                 /\ Abs(e.n, r) = AbsFlip(e.n, Abs(e.n, a), e.i)
           ELSE /\ SwapK(e.n, a, e.i, e.j) = r
                /\ Abs(e.n, r) = AbsSwap(e.n, Abs(e.n, a), e.i, e.j)
        /\ l' = l + 1
Spec == Init /\ [][Step]_l
Accepted == IF TLCGet("stats").diameter - 1 = Len(Rec) THEN TRUE
            ELSE Print(<<"REJECT at", TLCGet("stats").diameter>>, FALSE)
====
