---- MODULE Skel ----
EXTENDS Naturals, FiniteSets, Sequences, TLC, Json, IOUtils
Rec == ndJsonDeserialize(IOEnv.TRACE)
Bit(m, i) == (m \div (2^i)) % 2 = 1
FlipBit(m, i) == IF Bit(m, i) THEN m - 2^i ELSE m + 2^i
ToSet(js) == {js[x] : x \in 1..Len(js)}
NoVal == [n |-> 0 - 1, on |-> {}]
VARIABLES l, slots, poisoned, nviol, nchecked
vars == <<l, slots, poisoned, nviol, nchecked>>
Init == l = 1 /\ slots = [s \in 0..3 |-> NoVal] /\ poisoned = FALSE /\ nviol = 0 /\ nchecked = 0
\* Verdict: [ok, why, slots]
Ok(s) == [ok |-> TRUE, why |-> "", slots |-> s]
Bad(w) == [ok |-> FALSE, why |-> w, slots |-> slots]
Verdict(e) ==
  CASE e.op = "load" -> Ok([slots EXCEPT ![e.dst] = [n |-> e.n, on |-> ToSet(e.res)]])
    [] e.op = "flip" ->
        LET a == slots[e.src]
            pre == e.i < a.n IN
        IF ~pre THEN (IF e.outcome = "panic" THEN Ok(slots) ELSE Bad("expected panic"))
        ELSE IF e.outcome # "ok" THEN Bad("unexpected " \o e.outcome)
        ELSE LET exp == {m \in 0..2^a.n-1 : FlipBit(m, e.i) \in a.on} IN
             IF ToSet(e.res) = exp THEN Ok([slots EXCEPT ![e.dst] = [n |-> a.n, on |-> exp]]) ELSE Bad("wrong table")
    [] e.op = "not" ->
        LET a == slots[e.src]
            exp == (0..2^a.n-1) \ a.on IN
        IF ToSet(e.res) = exp THEN Ok([slots EXCEPT ![e.dst] = [n |-> a.n, on |-> exp]]) ELSE Bad("wrong table")
    [] OTHER -> Bad("unknown op")
Step == /\ l <= Len(Rec)
        /\ l' = l + 1
        /\ LET e == Rec[l] IN
           IF e.op = "reset" THEN
              /\ slots' = [s \in 0..3 |-> NoVal] /\ poisoned' = FALSE /\ UNCHANGED <<nviol, nchecked>>
           ELSE IF poisoned THEN UNCHANGED <<slots, poisoned, nviol, nchecked>>
           ELSE LET v == Verdict(e) IN
              /\ slots' = v.slots
              /\ poisoned' = ~v.ok
              /\ nchecked' = nchecked + 1
              /\ nviol' = IF v.ok THEN nviol ELSE nviol + 1
              /\ IF v.ok THEN TRUE ELSE PrintT(<<"VIOL", l, e.op, v.why>>)
Finish == /\ l = Len(Rec) + 1 /\ l' = l + 1
          /\ PrintT(<<"DONE", Len(Rec), nchecked, nviol>>)
          /\ UNCHANGED <<slots, poisoned, nviol, nchecked>>
Spec == Init /\ [][Step \/ Finish]_vars
TypeOK == \A s \in 0..3 : slots[s].on \subseteq 0..(2^(IF slots[s].n < 0 THEN 0 ELSE slots[s].n) - 1)
====
