import json, random, sys
random.seed(2)
def count(fs, n):
    tot=0
    for L in range(1,n):
        nodes=set()
        for f in fs:
            for a in range(1<<(n-L-1)):
                g=[f[(a<<(L+1))+m] for m in range(1<<(L+1))]
                if g[0]: g=[1-x for x in g]
                lo=g[:1<<L]; hi=g[1<<L:]
                if not any(g): continue
                if lo==hi: continue
                if not any(lo) and all(hi): continue
                nodes.add(tuple(g))
        tot+=len(nodes)
    return tot
N=int(sys.argv[1]); cnt=int(sys.argv[2])
with open(sys.argv[3],'w') as out:
    for e in range(cnt):
        fs=[[random.getrandbits(1) for _ in range(1<<N)] for _ in range(4)]
        out.write(json.dumps({"n":N,"fs":[[m for m in range(1<<N) if f[m]] for f in fs],"cnt":count(fs,N)})+"\n")
