import json, random, sys
random.seed(1)
K=6; W=64
def words(n, bits):
    nw = 1 if n<=6 else 1<<(n-6)
    out=[[] for _ in range(nw)]
    for m in range(1<<n):
        if bits[m]: out[m>>6].append(m&63)
    return out
def flip(n,bits,i): return [bits[m^(1<<i)] for m in range(1<<n)]
def swap(n,bits,i,j):
    def sw(m):
        bi=(m>>i)&1; bj=(m>>j)&1
        if bi!=bj: m^=(1<<i)|(1<<j)
        return m
    return [bits[sw(m)] for m in range(1<<n)]
N=int(sys.argv[1]); cnt=int(sys.argv[2])
with open(sys.argv[3],'w') as f:
    for e in range(cnt):
        n=N
        bits=[random.getrandbits(1) for _ in range(1<<n)]
        if e%2==0:
            i=random.randrange(n); r=flip(n,bits,i)
            f.write(json.dumps({"op":"flip","n":n,"i":i,"j":0,"a":words(n,bits),"r":words(n,r)})+"\n")
        else:
            i=random.randrange(n); j=random.randrange(n); r=swap(n,bits,i,j)
            f.write(json.dumps({"op":"swap","n":n,"i":i,"j":j,"a":words(n,bits),"r":words(n,r)})+"\n")
