---- MODULE OptSearch ----
EXTENDS Naturals, FiniteSets, Sequences, TLC
CONSTANTS N, NOUT, BOUND, ANDC, XORC
TARGET == <<{1,2,4,7},{3,5,6,7}>>
\* ESOP multi-output: is there a solution with cost < BOUND ?  cost = sum over distinct cubes of gates*ANDC
\*   + XORC * sum_j max(0, |cubes_j| - 1).  Search state: g[j] = XOR of cubes chosen so far for output j,
\*   used[j] = whether output j has >= 1 cube; cost so far. Cubes are taken in a fixed order (each once).
Dom == 0..2^N-1
Bit(m, i) == (m \div (2^i)) % 2 = 1
Cubes == {c \in [0..N-1 -> {0,1,2}] : TRUE}   \* 0 absent, 1 positive, 2 negative
CubeOn(c) == {m \in Dom : \A v \in 0..N-1 : (c[v] = 1 => Bit(m, v)) /\ (c[v] = 2 => ~Bit(m, v))}
Lits(c) == Cardinality({v \in 0..N-1 : c[v] # 0})
Gates(c) == IF Lits(c) = 0 THEN 0 ELSE Lits(c) - 1
NC == 3^N
CubeSeq == [k \in 1..NC |-> [v \in 0..N-1 |-> ((k-1) \div (3^v)) % 3]]
OnT == [k \in 1..NC |-> CubeOn(CubeSeq[k])]
GateT == [k \in 1..NC |-> Gates(CubeSeq[k])]
SymDiff(a, b) == (a \ b) \cup (b \ a)
VARIABLES g, used, cost, k
vars == <<g, used, cost, k>>
Init == g = [j \in 1..NOUT |-> {}] /\ used = [j \in 1..NOUT |-> FALSE] /\ cost = 0 /\ k = 1
Take == /\ k <= NC
        /\ \E S \in SUBSET (1..NOUT) :
             LET extra == Cardinality({j \in S : used[j]}) * XORC
                 c2 == cost + (IF S = {} THEN 0 ELSE GateT[k] * ANDC) + extra IN
             /\ c2 < BOUND
             /\ cost' = c2
             /\ g' = [j \in 1..NOUT |-> IF j \in S THEN SymDiff(g[j], OnT[k]) ELSE g[j]]
             /\ used' = [j \in 1..NOUT |-> used[j] \/ j \in S]
        /\ k' = k + 1
Spec == Init /\ [][Take]_vars
NoCheaper == g # TARGET
====
