CONSTANTS K = 2
 N = 4
INIT Init
NEXT Next
INVARIANT Inv
CHECK_DEADLOCK FALSE
