---- MODULE Bdd ----
EXTENDS Naturals, FiniteSets, Sequences, TLC, Json, IOUtils
Rec == ndJsonDeserialize(IOEnv.TRACE)
\* level-slicing definition on on-sets: sub-table at level L with index a = {m % 2^(L+1) : m in f, m \div 2^(L+1) = a}
Sub(f, L, a) == {m % (2^(L+1)) : m \in {x \in f : x \div (2^(L+1)) = a}}
Norm(g, L) == IF 0 \in g THEN (0..2^(L+1)-1) \ g ELSE g
Lo(g, L) == {m \in g : m < 2^L}
Hi(g, L) == {m - 2^L : m \in {x \in g : x >= 2^L}}
Counted(g, L) == /\ g # {}
                 /\ Lo(g, L) # Hi(g, L)
                 /\ ~(Lo(g, L) = {} /\ Hi(g, L) = 0..2^L-1)
LevelNodes(fs, n, L) == {g \in {Norm(Sub(fs[k], L, a), L) : k \in 1..Len(fs), a \in 0..2^(n-L-1)-1} : Counted(g, L)}
BddCount(fs, n) == LET RECURSIVE S(_)
                       S(L) == IF L >= n THEN 0 ELSE Cardinality(LevelNodes(fs, n, L)) + S(L+1)
                   IN IF n < 2 THEN 0 ELSE S(1)
VARIABLE l
Init == l = 1
Step == /\ l <= Len(Rec)
        /\ LET e == Rec[l]
               fs == [k \in 1..Len(e.fs) |-> {e.fs[k][x] : x \in 1..Len(e.fs[k])}] IN
           BddCount(fs, e.n) = e.cnt \/ Print(<<"MISMATCH", l, BddCount(fs, e.n), e.cnt>>, FALSE)
        /\ l' = l + 1
Spec == Init /\ [][Step]_l
Accepted == TLCGet("stats").diameter - 1 = Len(Rec)
====
