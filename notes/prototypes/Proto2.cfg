CONSTANTS K = 2
 N = 4
INIT Init
NEXT Next
CHECK_DEADLOCK FALSE
