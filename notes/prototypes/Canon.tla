---- MODULE Canon ----
EXTENDS Naturals, FiniteSets, Sequences, TLC
CONSTANTS N, FIXED   \* FIXED: model the repaired decoding (best_ind = None initially)
Bit(m, i) == (m \div (2^i)) % 2 = 1
FlipBit(m, i) == IF Bit(m, i) THEN m - 2^i ELSE m + 2^i
SwapBits(m, i, j) == IF Bit(m, i) = Bit(m, j) THEN m ELSE FlipBit(FlipBit(m, i), j)
Dom == 0..2^N-1
AbsFlip(f, i) == {m \in Dom : FlipBit(m, i) \in f}
AbsSwap(f, i, j) == {m \in Dom : SwapBits(m, i, j) \in f}
AbsNot(f) == Dom \ f
Max(S) == CHOOSE x \in S : \A y \in S : y <= x
Less(a, b) == LET d == (a \ b) \cup (b \ a) IN d # {} /\ Max(d) \in b
\* Sequences as in canonization.rs
RECURSIVE Tz(_)
Tz(x) == IF x % 2 = 1 THEN 0 ELSE 1 + Tz(x \div 2)
GrayFlips(n) == IF n = 0 THEN <<>> ELSE [k \in 1..2^n |-> IF k = 2^n THEN n-1 ELSE Tz(k)]
RECURSIVE SJTPerms(_)
InsertAt(s, j, v) == SubSeq(s, 1, j) \o <<v>> \o SubSeq(s, j+1, Len(s))
SJTPerms(n) == IF n = 0 THEN << <<>> >> ELSE IF n = 1 THEN << <<0>> >> ELSE IF n = 2 THEN << <<1,0>>, <<0,1>> >>
  ELSE LET prev == SJTPerms(n-1)
           blk(i) == IF i % 2 = 1 THEN [j \in 1..n |-> InsertAt(prev[i], j-1, n-1)]
                                  ELSE [j \in 1..n |-> InsertAt(prev[i], n-j, n-1)]
       IN [k \in 1..(Len(prev)*n) |-> blk(((k-1) \div n) + 1)[((k-1) % n) + 1]]
DiffPos(p, q) == CHOOSE i \in 1..Len(p)-1 : p[i] # q[i] /\ \A j \in 1..i-1 : p[j] = q[j]
Swaps(n) == LET ps == SJTPerms(n) IN
   IF Len(ps) <= 1 THEN <<>>
   ELSE [k \in 1..Len(ps) |-> IF k < Len(ps) THEN DiffPos(ps[k], ps[k+1]) - 1 ELSE DiffPos(ps[Len(ps)], ps[1]) - 1]
\* Certificate semantics (property C05)
Perms == {p \in [0..N-1 -> 0..N-1] : \A i, j \in 0..N-1 : p[i] = p[j] => i = j}
ApplyCert(f, perm, mask) ==
  {y \in Dom : LET x == LET bits == {perm[i] : i \in {i \in 0..N-1 : Bit(y, i) # Bit(mask, i)}} IN bits
               IN (LET xv == IF x = {} THEN 0 ELSE LET RECURSIVE Sum(_) 
                                                      Sum(S) == IF S = {} THEN 0 ELSE LET e == CHOOSE e \in S : TRUE IN 2^e + Sum(S \ {e}) IN Sum(x)
                   IN (xv \in f) # Bit(mask, N))}
Orbit(f) == {ApplyCert(f, p, m) : p \in Perms, m \in 0..2^(N+1)-1}
MinOf(S) == CHOOSE a \in S : \A b \in S : ~Less(b, a)
\* The NPN walk as a step machine, as the code does it
VARIABLES f, tab, best, bestInd, ind, si, fi, ni, pc
vars == <<f, tab, best, bestInd, ind, si, fi, ni, pc>>
SW == Swaps(N)
FL == GrayFlips(N)
NONE == 0 - 1
Init == /\ f \in SUBSET Dom /\ tab = f /\ best = f /\ bestInd = (IF FIXED THEN NONE ELSE 0)
        /\ ind = 0 /\ si = 1 /\ fi = 0 /\ ni = 0 /\ pc = "swap"
DoSwap == /\ pc = "swap" /\ si <= Len(SW)
          /\ tab' = AbsSwap(tab, SW[si], SW[si]+1) /\ fi' = 1 /\ pc' = "flip"
          /\ UNCHANGED <<f, best, bestInd, ind, si, ni>>
DoFlip == /\ pc = "flip"
          /\ IF fi <= Len(FL) THEN /\ tab' = AbsFlip(tab, FL[fi]) /\ ni' = 0 /\ pc' = "not" /\ UNCHANGED si
                              ELSE /\ si' = si + 1 /\ pc' = "swap" /\ UNCHANGED <<tab, ni>>
          /\ UNCHANGED <<f, best, bestInd, ind, fi>>
DoNot == /\ pc = "not"
         /\ IF ni < 2 THEN
              LET t2 == AbsNot(tab) IN
              /\ tab' = t2 /\ ni' = ni + 1 /\ ind' = ind + 1
              /\ IF Less(t2, best) THEN best' = t2 /\ bestInd' = ind ELSE UNCHANGED <<best, bestInd>>
              /\ UNCHANGED <<fi, pc>>
            ELSE /\ fi' = fi + 1 /\ pc' = "flip" /\ UNCHANGED <<tab, ni, ind, best, bestInd>>
         /\ UNCHANGED <<f, si>>
Finish == /\ pc = "swap" /\ si > Len(SW) /\ pc' = "done" /\ UNCHANGED <<f, tab, best, bestInd, ind, si, fi, ni>>
Next == DoSwap \/ DoFlip \/ DoNot \/ Finish
Spec == Init /\ [][Next]_vars
\* decode as npn_canonization_res
RECURSIVE Decode(_, _, _, _, _, _)
Decode(s, fl, k, perm, mask, target) ==
  \* returns <<perm, mask>> or <<>>; iterate in code order; k = current index
  IF s > Len(SW) THEN <<>>
  ELSE LET perm2 == IF fl = 1 THEN [perm EXCEPT ![SW[s]] = perm[SW[s]+1], ![SW[s]+1] = perm[SW[s]]] ELSE perm IN
       IF fl > Len(FL) THEN Decode(s+1, 1, k, perm2, mask, target)
       ELSE LET m1 == FlipBit(mask, FL[fl]) 
                m2 == FlipBit(m1, N) IN
            IF k = target THEN <<perm2, m2>>
            ELSE IF k + 1 = target THEN <<perm2, m1>>
            ELSE Decode(s, fl+1, k+2, perm2, m1, target)
Id == [i \in 0..N-1 |-> i]
Cert == IF bestInd = NONE THEN <<Id, 0>> ELSE Decode(1, 1, 0, Id, 0, bestInd)
MinOK == pc = "done" => best = MinOf(Orbit(f))
CertOK == pc = "done" => /\ Cert # <<>> /\ ApplyCert(f, Cert[1], Cert[2]) = best
BackHome == pc = "done" => tab = f
====
