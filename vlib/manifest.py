"""Regenerates MANIFEST.json from the property table (so that it is always valid and current)."""
import json
import os
import subprocess

from .props import PROPS

ROOT = os.path.dirname(os.path.dirname(os.path.abspath(__file__)))

LEVEL_TEXT = {
    "default": "TLC evaluates the TLA+ specification (spec/) as the oracle: every call recorded from the real code "
               "(both table types, real 64-bit word size) is replayed on the specification's state machine and "
               "must be a step it allows; bounded model-checking configs (spec/mc) check the specification's own "
               "theorems and the refinement of the word-level kernels at small word sizes.",
}


def build():
    props = [json.loads(l) for l in open(os.path.join(ROOT, "properties.jsonl"))]
    hooks_commit = subprocess.run(["git", "-C", "/repo", "log", "--format=%h", "--grep", "^verif:"],
                                  capture_output=True, text=True).stdout.split()
    checks = []
    na = []
    for p in props:
        pid = p["id"]
        if pid in PROPS and not PROPS[pid].get("disabled"):
            spec = PROPS[pid]
            checks.append({
                "property_id": pid,
                "quick_cmd": "./check %s --tier quick" % pid,
                "thorough_cmd": "./check %s --tier thorough" % pid,
                "evidence_file": "evidence/%s.json" % pid,
                "replay_cmd_template": "./check %s --replay {path}" % pid,
                "engine": "tla-trace-validation",
                "level_claimed": {"category": "model_checking",
                                  "text": spec.get("level_text", LEVEL_TEXT["default"]),
                                  "design_ref": "DESIGN.md section 5, " + pid},
                "level_note": "trusted: " + "; ".join(spec.get("assumptions", [])),
                "technique": spec.get("technique", "TLA+ specification checked by TLC; trace validation of the Rust code against it"
                                      + ("; random calls screened against a naive oracle are forwarded to the same trace validation" if spec.get("hunt") else "")
                                      + ("; unbounded lemmas of the specification proved with TLAPS (spec/proofs)" if spec.get("proofs") else "")),
            })
        else:
            na.append({"property_id": pid, "reason": PROPS.get(pid, {}).get("disabled", "check not built yet (work in progress)")})
    m = {
        "version": 1,
        "setup_cmd": "./check setup",
        "hooks": {
            "guard": "verif-hooks",
            "enable": "cargo feature: the harness depends on volute = { path = \"/repo\", features = [\"rand\", \"verif-hooks\"] }",
            "baseline_off_cmd": "cd /repo && cargo test --workspace --no-fail-fast --offline",
            "source_commits": hooks_commit,
            "add_only": True,
        },
        "engines": [
            {"name": "tla-trace-validation", "path": "spec/trace/VoluteTrace.tla",
             "serves_properties": [c["property_id"] for c in checks],
             "kind_free_text": "TLC replays ndjson traces recorded by harness/ (Rust, path dependency on /repo) on the specification"},
            {"name": "tlc-bounded-model-checking", "path": "spec/mc",
             "serves_properties": [c["property_id"] for c in checks if PROPS[c["property_id"]].get("mc")],
             "kind_free_text": "exhaustive TLC runs of the specification for small sizes / word sizes"},
            {"name": "tlaps-lemmas", "path": "spec/proofs",
             "serves_properties": [c["property_id"] for c in checks if PROPS[c["property_id"]].get("proofs")],
             "kind_free_text": "tlapm re-proves the unbounded lemmas the specification relies on where enumeration is out of reach"},
        ],
        "checks": checks,
        "not_applicable": na,
        "notes": "Exit 0 held / 1 VIOLATION / 2 tool error. known_findings.json lists genuine defects (all repaired by fix: commits).",
    }
    with open(os.path.join(ROOT, "MANIFEST.json"), "w") as f:
        json.dump(m, f, indent=1)
    return m
