"""Orchestration: build the harness from /repo's working tree, generate and run scripts on the
real code, validate the traces with TLC, run the bounded model-checking configs, match known
findings, write evidence.  No verdict is computed here."""
import concurrent.futures as cf
import glob
import hashlib
import json
import os
import shutil
import subprocess
import sys
import time

from . import tlc
from .props import PROPS

ROOT = tlc.ROOT
HARNESS = os.path.join(ROOT, "harness")
OUT = os.path.join(ROOT, "out")
EVID = os.path.join(ROOT, "evidence")
KNOWN = os.path.join(ROOT, "known_findings.json")


def log(*a):
    print(*a, flush=True)


def build(profiles, exe="vdrive"):
    env = dict(os.environ)
    env["CARGO_NET_OFFLINE"] = "true"
    for prof in profiles:
        t0 = time.time()
        cmd = ["cargo", "build", "--offline", "--profile", prof, "--bin", exe]
        if exe == "voptim":
            cmd += ["--features", "optim"]
        p = subprocess.run(cmd, cwd=HARNESS, env=env, stdout=subprocess.PIPE, stderr=subprocess.STDOUT, text=True)
        if p.returncode != 0:
            log(p.stdout[-4000:])
            raise tlc.ToolError("harness build failed (profile %s)" % prof)
        log("[build] %s profile %s: %.1fs" % (exe, prof, time.time() - t0))


EXE = ["vdrive"]


def vdrive(profile, args, timeout=3600):
    exe = os.path.join(HARNESS, "target", profile, EXE[0])
    p = subprocess.run([exe] + args, stdout=subprocess.PIPE, stderr=subprocess.PIPE, text=True, timeout=timeout)
    if p.returncode != 0:
        log(p.stdout[-2000:], p.stderr[-2000:])
        raise tlc.ToolError("vdrive %s failed rc=%d" % (" ".join(args[:2]), p.returncode))
    return json.loads(p.stdout.strip().splitlines()[-1])


def episode_of(trace_file, line_no):
    """Lines of the episode containing 1-based line `line_no`."""
    with open(trace_file) as f:
        lines = f.read().splitlines()
    i = line_no - 1
    start = i
    while start > 0 and '"op":"reset"' not in lines[start]:
        start -= 1
    end = i + 1
    while end < len(lines) and '"op":"reset"' not in lines[end]:
        end += 1
    return lines[start:end], lines[i]


def load_known():
    if not os.path.exists(KNOWN):
        return []
    with open(KNOWN) as f:
        return json.load(f).get("findings", [])


def matches_known(pid, event, known):
    for k in known:
        if k.get("status") != "open" or k.get("property") != pid:
            continue
        if all(event.get(f) == v for f, v in k.get("match", {}).items()):
            return k
    return None


def validate_chunks(pid, mode, chunks, outdir, tag, pairs=None, jobs=8, tier="quick"):
    """Validate trace chunks in parallel.  Returns (results, tool_errors)."""
    results = []
    errors = []

    def one(i, ch):
        meta = os.path.join(outdir, "meta_%s_%03d" % (tag, i))
        logp = os.path.join(outdir, "tlc_%s_%03d.log" % (tag, i))
        t2 = pairs[i] if pairs else None
        r = tlc.validate_trace(ch, mode, meta, logp, trace2=t2, tier=tier)
        shutil.rmtree(meta, ignore_errors=True)
        if r["done"] is None or not r["ok"]:
            # a JVM that dies without a verdict (seen once: StackOverflowError on a machine short of memory, not
            # reproducible) is run again, once, with its first log kept; a second failure is a tool error
            if os.path.exists(logp):
                os.replace(logp, logp + ".first")
            r = tlc.validate_trace(ch, mode, meta, logp, trace2=t2, tier=tier)
            shutil.rmtree(meta, ignore_errors=True)
            r["retried"] = True
        r["chunk"] = ch
        return r

    with cf.ThreadPoolExecutor(max_workers=jobs) as ex:
        # the largest trace files first: the long poles start at once
        order = sorted(range(len(chunks)), key=lambda i: -os.path.getsize(chunks[i]))
        futs = [ex.submit(one, i, chunks[i]) for i in order]
        for f in futs:
            r = f.result()
            results.append(r)
            nlines = sum(1 for _ in open(r["chunk"]))
            if r["done"] is None or not r["ok"]:
                errors.append("TLC did not finish on %s (rc=%s, see %s)" % (r["chunk"], r["rc"], r["log"]))
            elif r["done"][1] != nlines:
                errors.append("TLC consumed %d of %d lines of %s" % (r["done"][1], nlines, r["chunk"]))
            elif r["done"][3] != len(r["viols"]):
                errors.append("VIOL lines (%d) != nviol (%d) in %s" % (len(r["viols"]), r["done"][3], r["log"]))
    return results, errors


def run_mcs(pid, tier, outdir):
    """Bounded model checking of the specification itself for this property."""
    spec = PROPS[pid]
    res = []
    errors = []
    for mc in spec.get("mc", []):
        if mc.get("tier", "quick") == "thorough" and tier != "thorough":
            continue
        if mc.get("only") == "quick" and tier != "quick":
            continue
        name = mc["cfg"].replace(".cfg", "")
        meta = os.path.join(outdir, "meta_mc_" + name)
        logp = os.path.join(outdir, "mc_%s.log" % name)
        r = tlc.run_mc(mc["module"], mc["cfg"], meta, logp, workers=mc.get("workers", 6),
                       timeout=mc.get("timeout", 3600), extra=["-coverage", "1"] if mc.get("coverage") else None)
        shutil.rmtree(meta, ignore_errors=True)
        log("[mc] %s: %s, %d states (%d distinct), %.1fs" % (name, "ok" if r["ok"] else "FAILED", r["generated"], r["distinct"], r["wall"]))
        r["name"] = name
        res.append(r)
        if not r["ok"]:
            errors.append("model checking config %s failed: the specification is inconsistent or the run did not finish (see %s)" % (name, logp))
    # unbounded lemmas (TLAPS): re-proved from scratch in a private copy (tlapm caches next to the module)
    for pf in spec.get("proofs", []):
        import re
        pdir = os.path.join(outdir, "proofs")
        shutil.rmtree(pdir, ignore_errors=True)
        os.makedirs(pdir)
        shutil.copy(os.path.join(tlc.SPEC, "proofs", pf), pdir)
        t0 = time.time()
        logp = os.path.join(outdir, "tlaps_%s.log" % pf.replace(".tla", ""))
        try:
            pr = subprocess.run(["tlapm", "--threads", "4", pf], cwd=pdir, stdout=subprocess.PIPE, stderr=subprocess.STDOUT,
                                text=True, timeout=900)
            out = pr.stdout
        except (subprocess.TimeoutExpired, OSError) as ex:
            out = "tlapm did not finish: %s" % ex
        open(logp, "w").write(out)
        m = re.search(r"All (\d+) obligations? proved", out)
        ok = bool(m) and "failed" not in out
        nob = int(m.group(1)) if m else 0
        wall = time.time() - t0
        log("[tlaps] %s: %s, %d obligations, %.1fs" % (pf, "ok" if ok else "FAILED", nob, wall))
        res.append({"name": "TLAPS " + pf, "ok": ok, "generated": nob, "distinct": nob, "wall": wall})
        shutil.rmtree(pdir, ignore_errors=True)
        if not ok:
            errors.append("TLAPS did not prove %s (see %s)" % (pf, logp))
    return res, errors


def run_machine_replay(pid, tier, outdir, profile):
    """Spec -> impl: export every transition of the bounded API machine (mc/MC_Machine) as a
    one-step script and replay the ones that belong to this property on the real types."""
    spec = PROPS[pid]
    rp = spec.get("machine_ops")
    if not rp:
        return [], [], []
    cfgs = ["MC_Machine_n2.cfg"] + (["MC_Machine_n3.cfg"] if tier == "thorough" else [])
    res, errors, mism = [], [], []
    for cfg in cfgs:
        name = cfg.replace(".cfg", "")
        meta = os.path.join(outdir, "meta_" + name)
        logp = os.path.join(outdir, "mc_%s.log" % name)
        r = tlc.run_mc("MC_Machine.tla", cfg, meta, logp, workers=6, timeout=3600)
        shutil.rmtree(meta, ignore_errors=True)
        r["name"] = name
        res.append(r)
        if not r["ok"]:
            errors.append("machine exploration %s failed (see %s)" % (name, logp))
            continue
        scripts = os.path.join(outdir, name + "_scripts.ndjson")
        n = 0
        with open(logp, errors="replace") as f, open(scripts, "w") as out:
            for line in f:
                if line.startswith('"SCRIPT '):
                    out.write(json.loads(line.strip())[len("SCRIPT "):] + "\n")
                    n += 1
        mm = os.path.join(outdir, name + "_mismatch.ndjson")
        rr = vdrive(profile, ["replay", scripts, mm, "--ops", ",".join(rp)])
        log("[replay] %s: %d transitions exported, %s" % (name, n, rr))
        r["replayed"] = rr["scripts"]
        with open(mm) as f:
            for line in f:
                m = json.loads(line)
                # a malformed representation of the right function is C02's report and nobody else's
                wf = [x for x in m["problems"] if x.startswith("WF ")]
                other = [x for x in m["problems"] if not x.startswith("WF ")]
                m["problems"] = wf if pid == "C02" else other
                if m["problems"]:
                    mism.append(m)
        os.remove(scripts)
        os.remove(logp) if r["ok"] else None
    return res, errors, mism


def write_evidence(pid, tier, seed, wall, cov, assumptions, nviol):
    os.makedirs(EVID, exist_ok=True)
    ev = {"property_id": pid, "tier": tier, "seed": seed, "level": "model_checking", "coverage": cov,
          "assumptions": assumptions, "wall_s": round(wall, 1), "violations": nviol}
    with open(os.path.join(EVID, pid + ".json"), "w") as f:
        json.dump(ev, f, indent=1)


def sample_events(chunks, strict_ops, k=3):
    out = []
    for ch in chunks[:1] + chunks[-1:]:
        with open(ch) as f:
            for line in f:
                e = json.loads(line)
                if e.get("op") in strict_ops:
                    s = json.dumps(e)
                    out.append(json.loads(s) if len(s) < 600 else {"op": e["op"], "truncated": s[:500]})
                    break
    return out[:k]


def distinct_strict(chunks, strict_ops):
    """Number of distinct strict events (by content, ignoring the table type), and how many of
    them are non-trivial (some table involved is neither constant-0 nor constant-1 nor absent)."""
    seen = set()
    nontrivial = set()
    total = 0
    for ch in chunks:
        with open(ch) as f:
            for line in f:
                if '"op":"reset"' in line:
                    continue
                e = json.loads(line)
                if strict_ops and e.get("op") not in strict_ops:
                    continue
                total += 1
                e.pop("ty", None)
                h = hashlib.sha1(json.dumps(e, sort_keys=True).encode()).hexdigest()
                seen.add(h)
                triv = True
                for p in e.get("post", []):
                    t = p.get("t")
                    if t and 0 < len(t.get("on", [])) < (1 << t["n"]):
                        triv = False
                if e.get("r") not in (None, [], "", 0) and not e.get("post"):
                    triv = False
                if "same" in line and len(line) > 200:
                    triv = False
                if not triv:
                    nontrivial.add(h)
    return total, len(seen), len(nontrivial)


def run_property(pid, tier, seed, replay=None):
    t0 = time.time()
    spec = PROPS[pid]
    outdir = os.path.join(OUT, pid)
    shutil.rmtree(outdir, ignore_errors=True)
    os.makedirs(outdir)
    profiles = spec.get("profiles_thorough" if tier == "thorough" else "profiles", ["checked"])
    EXE[0] = spec.get("exe", "vdrive")
    build(profiles, EXE[0])
    tool_errors = []
    mc_res = []
    mc_future = None
    mc_pool = cf.ThreadPoolExecutor(max_workers=1)
    if not replay:
        # the bounded model-checking configs run alongside the trace pipeline
        mc_future = mc_pool.submit(run_mcs, pid, tier, outdir)
    # script
    all_results = []
    all_chunks = []
    viol_records = []
    mode = spec.get("mode", pid)
    phases = spec.get("phases_thorough" if tier == "thorough" and "phases_thorough" in spec else "phases")
    if not phases:
        phases = [{"gen": pid, "runs": [(p, "both") for p in profiles],
                   "validate": [(i, None) for i in range(len(profiles))]}]
    if spec.get("hunt") and not replay:
        # mass screening against the naive oracle; whatever it forwards is judged by the specification
        # (thorough tier: the forwarded episodes are executed by every build profile of the property)
        hruns = spec.get("hunt_runs", [(p, "both") for p in profiles] if tier == "thorough" else [(profiles[0], "both")])
        phases = list(phases) + [{"hunt": pid, "runs": hruns,
                                  "validate": spec.get("hunt_validate", [(i, None) for i in range(len(hruns))])}]
        if tier == "quick" and "fast" not in profiles and "hunt_runs" not in spec and EXE[0] == "vdrive":
            # ... and once more on the build without debug assertions and overflow checks (screened and executed there):
            # behaviour that differs between the build profiles can hit any property
            build(["fast"], EXE[0])
            phases.append({"hunt": pid, "hunt_profile": "fast", "runs": [("fast", "both")], "validate": [(0, None)]})
    hunt_stats = []
    if replay and '"call"' in open(replay).readline():
        mm = os.path.join(outdir, "mismatch.ndjson")
        rr = vdrive(profiles[0], ["replay", replay, mm])
        log("[replay] %s" % rr)
        n = 0
        for line in open(mm):
            n += 1
            log("VIOLATION property=%s replay=%s" % (pid, replay))
            log("  " + "; ".join(json.loads(line)["problems"])[:400])
        return 1 if n else 0
    if replay:
        phases = [dict(phases[0], script=replay)] if len(phases) == 1 else [dict(ph, script=replay) for ph in phases[:1]]
    scripts = []
    for pi, ph in enumerate(phases):
        if "script" in ph:
            script = ph["script"]
        else:
            script = os.path.join(outdir, "script_%d.ndjson" % pi)
            if "hunt" in ph:
                budget = spec.get("hunt_ms", (4000, 90000))[1 if tier == "thorough" else 0]
                g = vdrive(ph.get("hunt_profile", spec.get("hunt_profile", profiles[0])), ["hunt", ph["hunt"], str(seed + (1 if "hunt_profile" in ph else 0)), str(budget), script])
                log("[hunt] %s: %s" % (ph["hunt"], g))
                hunt_stats.append(g)
            else:
                g = vdrive(profiles[0], ["gen", ph["gen"], tier, str(seed), script])
                log("[gen] %s: %s" % (ph["gen"], g))
            scripts.append(script)
        run_chunks = []
        for ri, (prof, ty) in enumerate(ph["runs"]):
            prefix = os.path.join(outdir, "tr_p%d_r%d_%s_%s" % (pi, ri, prof, ty))
            r = vdrive(prof, ["run", script, prefix, "--ty", ty, "--chunk-weight", str(spec.get("chunk_weight", 60000))])
            log("[run] %s/%s: %s" % (prof, ty, r))
            run_chunks.append(sorted(glob.glob(prefix + ".*.ndjson")))
        for (ri, di) in ph["validate"]:
            chunks = run_chunks[ri]
            pairs = run_chunks[di] if di is not None else None
            if pairs is not None and len(pairs) != len(chunks):
                tool_errors.append("the two runs of phase %d split into different numbers of chunks" % pi)
                continue
            prof = ph["runs"][ri][0]
            results, errs = validate_chunks(pid, mode, chunks, outdir, "p%d_r%d" % (pi, ri), pairs=pairs, tier=tier)
            tool_errors += errs
            all_results += results
            for res in results:
                for v in res["viols"]:
                    ep, ev = episode_of(res["chunk"], v[1])
                    viol_records.append({"profile": prof, "chunk": res["chunk"], "line": v[1], "op": v[2],
                                         "why": v[3], "episode": ep, "event": json.loads(ev),
                                         "queries": [q for q in res["queries"] if q[1] == v[1]]})
        for rc in run_chunks:
            all_chunks += rc
    if mc_future is not None:
        mc_res, errs = mc_future.result()
        tool_errors += errs
    mc_pool.shutdown()
    replayed = 0
    if not replay:
        mres, errs, mism = run_machine_replay(pid, tier, outdir, profiles[0])
        tool_errors += errs
        mc_res += mres
        replayed = sum(r.get("replayed", 0) for r in mres)
        for m in mism:
            viol_records.append({"profile": profiles[0], "chunk": None, "line": 0, "op": m["script"]["call"]["op"],
                                 "why": "; ".join(m["problems"])[:300], "episode": [json.dumps(m["script"])],
                                 "event": m["script"]["call"], "queries": []})
    if spec.get("post_filter"):
        viol_records = spec["post_filter"](viol_records, profiles[0], log)
    # report
    known = load_known()
    new_viol = 0
    vdir = os.path.join(outdir, "violations")
    printed = set()
    for k, vr in enumerate(viol_records):
        kf = matches_known(pid, vr["event"], known)
        if kf:
            key = kf.get("id", kf.get("what"))
            if key not in printed:
                printed.add(key)
                log("KNOWN-FINDING: property=%s %s" % (pid, kf.get("what")))
            continue
        os.makedirs(vdir, exist_ok=True)
        path = os.path.join(vdir, "%s_%03d.ndjson" % (pid, k))
        with open(path, "w") as f:
            f.write("\n".join(vr["episode"]) + "\n")
        new_viol += 1
        if new_viol <= 25:
            brief = {x: vr["event"][x] for x in vr["event"] if x not in ("post", "on", "walk")}
            log("VIOLATION property=%s replay=%s" % (pid, path))
            log("  (%s build, op %s: %s; event %s)" % (vr["profile"], vr["op"], vr["why"], json.dumps(brief)[:300]))
    if new_viol > 25:
        log("  ... %d violations in total, replay files under %s" % (new_viol, vdir))
    # evidence
    strict_ops = spec.get("strict_ops", [])
    total, distinct, nontriv = distinct_strict(all_chunks, strict_ops)
    nchk = sum(r["done"][2] for r in all_results if r["done"])
    nskip = sum(r["done"][4] for r in all_results if r["done"])
    neps = 0
    for ch in all_chunks:
        with open(ch) as f:
            neps += sum(1 for line in f if '"op":"reset"' in line)
    states = sum(r["distinct"] for r in all_results) + sum(r["distinct"] for r in mc_res)
    trans = sum(r["generated"] for r in all_results) + sum(r["generated"] for r in mc_res)
    cov = {
        "states": max(states, 1), "transitions": max(trans, 1),
        "traces_validated_against_impl": neps - nskip,
        "spec_transitions_replayed_on_impl": replayed,
        "samples": sample_events(all_chunks, strict_ops) or [{"note": "no strict event"}],
        "evaluations": total, "distinct_nontrivial": nontriv, "distinct_events": distinct,
        "strict_checks_by_tlc": nchk, "episodes_skipped_setup_failed": nskip,
        "rule": spec.get("rule", ""),
        "mc_configs": [{"name": r["name"], "ok": r["ok"], "states": r["distinct"], "wall_s": round(r["wall"], 1)} for r in mc_res],
        "trace_chunks": len(all_chunks), "profiles": profiles,
        "exhaustive": False,
    }
    nkern = sum(r["done"][5] for r in all_results if r["done"] and len(r["done"]) > 5)
    drifts = [(r["chunk"], d) for r in all_results for d in r.get("drifts", [])]
    if nkern:
        # conformance of the implementation-shaped kernels of the specification with the code (not a property verdict)
        cov["kernel_model_comparisons"] = nkern
        cov["kernel_model_drift"] = len(drifts)
    for ch, d in drifts[:5]:
        log("MODEL-DRIFT: %s line %s (%s %s): the code's representation differs from the specification's kernel model "
            "(no property is violated by that; the kernel model needs to be brought back in line)" % (os.path.basename(ch), d[1], d[2], d[3]))
    if hunt_stats:
        cov["screened_against_naive_oracle"] = sum(h.get("screened", 0) for h in hunt_stats)
        cov["forwarded_as_suspicious"] = sum(h.get("suspicious", 0) for h in hunt_stats)
    write_evidence(pid, tier, seed, time.time() - t0, cov, spec.get("assumptions", []), new_viol)
    log("[done] %s tier=%s: %d strict checks, %d episodes (%d skipped), %d violations (%d new), %.0fs"
        % (pid, tier, nchk, neps, nskip, len(viol_records), new_viol, time.time() - t0))
    if not replay:
        # keep disk usage down: traces are only needed for reported violations (already copied)
        for ch in all_chunks:
            os.remove(ch)
        for sc in scripts:
            try:
                os.remove(sc)
            except OSError:
                pass
    if tool_errors:
        for e in tool_errors:
            log("TOOL-ERROR: " + e)
        return 2
    if nchk == 0:
        log("TOOL-ERROR: no strict check was performed (vacuous run)")
        return 2
    return 1 if new_viol else 0


def main(argv):
    if not argv:
        print(__doc__)
        return 2
    cmd = argv[0]
    tier = os.environ.get("VERIF_TIER", "quick")
    seed = int(os.environ.get("VERIF_SEED", "1"))
    replay = None
    i = 1
    while i < len(argv):
        if argv[i] == "--tier":
            tier = argv[i + 1]
            i += 2
        elif argv[i] == "--replay":
            replay = os.path.abspath(argv[i + 1])
            i += 2
        elif argv[i] == "--seed":
            seed = int(argv[i + 1])
            i += 2
        else:
            print("unknown argument", argv[i])
            return 2
    try:
        if cmd == "setup":
            build(["checked", "fast"])
            build(["checked"], "voptim")
            return 0
        if cmd == "manifest":
            from . import manifest
            m = manifest.build()
            log("MANIFEST.json: %d checks, %d not_applicable" % (len(m["checks"]), len(m.get("not_applicable", []))))
            return 0
        if cmd in PROPS:
            return run_property(cmd, tier, seed, replay)
        print("unknown command/property", cmd)
        return 2
    except tlc.ToolError as e:
        log("TOOL-ERROR: %s" % e)
        return 2
