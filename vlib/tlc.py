"""Running TLC (model checking configs and trace validation) and parsing what it prints."""
import os
import re
import subprocess
import time

JARS = "/opt/veriftools/tla/tla2tools.jar:/opt/veriftools/tla/CommunityModules-deps.jar"
ROOT = os.path.dirname(os.path.dirname(os.path.abspath(__file__)))
SPEC = os.path.join(ROOT, "spec")
LIBPATH = ":".join([SPEC, os.path.join(SPEC, "mc"), os.path.join(SPEC, "trace")])


class ToolError(Exception):
    pass


def tlc_cmd(module, cfg, workers, metadir, xmx="3g", extra=None):
    cmd = ["java", "-XX:+UseParallelGC", "-XX:ParallelGCThreads=%d" % max(2, min(8, workers)), "-Xss1g", "-Xmx" + xmx, "-DTLA-Library=" + LIBPATH,
           "-cp", JARS, "tlc2.TLC", "-workers", str(workers), "-metadir", metadir, "-cleanup",
           "-noGenerateSpecTE"]
    if extra:
        cmd += extra
    cmd += ["-config", cfg, module]
    return cmd


RE_STATES = re.compile(r"^(\d+) states generated, (\d+) distinct states found")
RE_TUPLE = re.compile(r'^<<"(VIOL|DONE|QUERY|INFO|DRIFT)"')


def parse_tuple(line):
    """<<"VIOL", 12, "flip", "why">> -> ['VIOL', 12, 'flip', 'why']"""
    body = line.strip()[2:-2]
    out = []
    for tok in re.findall(r'"(?:[^"\\]|\\.)*"|-?\d+|TRUE|FALSE|<<[^>]*>>|\{[^}]*\}', body):
        if tok.startswith('"'):
            out.append(tok[1:-1])
        elif tok in ("TRUE", "FALSE"):
            out.append(tok == "TRUE")
        elif tok.startswith("<<") or tok.startswith("{"):
            out.append([int(x) for x in re.findall(r"-?\d+", tok)])
        else:
            out.append(int(tok))
    return out


def run_tlc(cmd, env, timeout, log_path):
    t0 = time.time()
    e = dict(os.environ)
    e.update(env)
    e.pop("JAVA_TOOL_OPTIONS", None)
    with open(log_path, "w") as lf:
        try:
            p = subprocess.run(cmd, env=e, stdout=lf, stderr=subprocess.STDOUT, timeout=timeout,
                               cwd=os.path.dirname(log_path))
            rc = p.returncode
        except subprocess.TimeoutExpired:
            rc = -9
    res = {"rc": rc, "wall": time.time() - t0, "tuples": [], "generated": 0, "distinct": 0,
           "ok": False, "log": log_path, "coverage": []}
    with open(log_path, errors="replace") as lf:
        pending = None
        for line in lf:
            line = line.rstrip("\n")
            if pending is not None:
                pending += " " + line.strip()
                if pending.endswith(">>"):
                    res["tuples"].append(parse_tuple(pending))
                    pending = None
                continue
            if RE_TUPLE.match(line):
                if line.rstrip().endswith(">>"):
                    res["tuples"].append(parse_tuple(line))
                else:
                    pending = line.strip()
                continue
            m = RE_STATES.match(line)
            if m:
                res["generated"] = int(m.group(1))
                res["distinct"] = int(m.group(2))
            if "Model checking completed. No error has been found." in line:
                res["ok"] = True
            if line.startswith("<") and " of module " in line and line.rstrip()[-1].isdigit():
                res["coverage"].append(line.strip())
    return res


def validate_trace(trace, mode, metadir, log_path, trace2=None, timeout=1800, xmx="3g", tier="quick"):
    """Replay one trace chunk on spec/trace/VoluteTrace.tla.  Returns the parsed result."""
    cfg = os.path.join(SPEC, "trace", "VoluteTrace.cfg")
    mod = os.path.join(SPEC, "trace", "VoluteTrace.tla")
    env = {"TRACE": trace, "MODE": mode, "DUAL": "1" if trace2 else "0", "TRACE2": trace2 or "", "TIER": tier}
    res = run_tlc(tlc_cmd(mod, cfg, 1, metadir, xmx=xmx), env, timeout, log_path)
    done = [t for t in res["tuples"] if t[0] == "DONE"]
    res["done"] = done[0] if done else None
    res["viols"] = [t for t in res["tuples"] if t[0] == "VIOL"]
    res["queries"] = [t for t in res["tuples"] if t[0] == "QUERY"]
    res["drifts"] = [t for t in res["tuples"] if t[0] == "DRIFT"]
    return res


def run_mc(module, cfg, metadir, log_path, workers=8, timeout=3600, xmx="8g", env=None, extra=None):
    mod = os.path.join(SPEC, "mc", module)
    cfgp = os.path.join(SPEC, "mc", cfg)
    return run_tlc(tlc_cmd(mod, cfgp, workers, metadir, xmx=xmx, extra=extra), env or {}, timeout, log_path)
