"""Per-property configuration of the orchestrator (what to drive, which ops are strict, which
bounded model-checking configs belong to the property)."""

PROPS = {
    "C03": {
        "strict_ops": ["flip", "swap", "swapadj", "cofactors", "fromcof"],
        "rule": "scripts from the seeded generator: for every n and every index (pair) one structured or random table; "
                "an event is non-trivial when a logged table is neither constant nor absent; distinct = distinct event content",
        "assumptions": ["blocks()/value()/num_vars() are the trusted projection", "harness-side packing of on-sets into blocks", "TLC"],
        "mc": [],
    },
}
