"""Per-property configuration of the orchestrator (what to drive, which ops are strict, which
bounded model-checking configs belong to the property)."""

TRUST = ["blocks()/value()/num_vars() are the trusted projection of a table",
         "harness-side packing of on-sets into blocks (from_blocks is a setup step)",
         "TLC evaluates the specification correctly"]

CTORS = ["zero", "one", "default", "parity", "majority", "nth_var", "threshold", "equals", "symmetric", "consts"]


def KMC(parts):
    """Kernel-refinement configs: quick = all tables n <= 3 + 1/16 of n = 4; thorough = all tables n <= 4."""
    out = []
    for part in parts:
        for k in (2, 3):
            if part == "ctors":
                out.append({"module": "MC_Kernels.tla", "cfg": "MC_Kernels_ctors_K%d_q.cfg" % k})
            else:
                out.append({"module": "MC_Kernels.tla", "cfg": "MC_Kernels_%s_K%d_q.cfg" % (part, k), "only": "quick"})
                out.append({"module": "MC_Kernels.tla", "cfg": "MC_Kernels_%s_K%d_t.cfg" % (part, k), "tier": "thorough",
                            "workers": 16})
    return out


def P(strict_ops, rule=None, **kw):
    d = {"strict_ops": strict_ops, "assumptions": TRUST, "mc": [],
         "profiles": ["checked"], "profiles_thorough": ["checked", "fast"]}
    d.update(kw)
    if rule is not None:
        d["rule"] = rule
    return d


def c04_library_order(viols, profile, log):
    """C04 speaks of the smallest table 'in the library's own ordering'.  The specification computes the
    numeric minimum m; when the returned representative r differs from it, the library itself is asked
    for r.cmp(m): the event is a C04 violation only if the library says m < r."""
    import json
    import os
    import subprocess
    from . import main
    exe = os.path.join(main.HARNESS, "target", profile, "vdrive")
    kept = []
    for v in viols:
        if v["why"] != "not the orbit minimum" or not v.get("queries"):
            kept.append(v)
            continue
        ev = v["event"]
        m = v["queries"][0][2]
        res = [p for p in ev["post"] if p["s"] == ev["d"] and "t" in p]
        if not res:
            kept.append(v)
            continue
        t = res[0]["t"]
        r = t.get("val", [x for x in t["on"] if x < (1 << t["n"])])
        out = subprocess.run([exe, "cmp", ev["ty"], str(t["n"]), json.dumps(r), json.dumps(m)],
                             capture_output=True, text=True).stdout.strip().strip('"')
        if out == "gt":
            kept.append(v)
        else:
            log("  (line %d: the library orders its result %s the numeric minimum: an ordering matter (C08), not reported here)"
                % (v["line"], {"lt": "below", "eq": "equal to"}.get(out, out)))
    return kept


TWO_MC = [{"module": "MC_TwoLevel.tla", "cfg": "MC_TwoLevel_q.cfg", "only": "quick"},
          {"module": "MC_TwoLevel.tla", "cfg": "MC_TwoLevel_t.cfg", "tier": "thorough", "workers": 16}]

PROPS = {
    "C01": P(hunt=True, strict_ops=["logic", "consts"], mc=KMC(["logic"]), machine_ops=["logic"], rule="every syntactic form of NOT/AND/OR/XOR on structured and random operand pairs for n = 0..14; "
             "all pairs x forms for n <= 2 (n = 3 thorough); distinct = distinct (form, operands) content"),
    "C02": P([], hunt=True, profiles=["checked", "fast"], mc=KMC(["transforms", "text"]),
             machine_ops=["zero", "one", "parity", "majority", "nth_var", "threshold", "equals", "logic", "flip", "swap",
                          "swapadj", "fromcof", "setbit", "vnext"], rule="random call histories (30 calls) over constructors, parser, operators, transforms, cofactoring, mutators, "
             "canonization, successor; every produced table checked for well-formedness, ==/hash/cmp observations and "
             "a value()-rebuilt twin of random slots compared with the original"),
    "C03": P(hunt=True, strict_ops=["flip", "swap", "swapadj", "cofactors", "fromcof", "consts"], mc=KMC(["transforms"]),
             machine_ops=["flip", "swap", "swapadj", "fromcof"],
             rule="for every n = 1..14 and every index (pair) one structured or random table, copying and in-place forms; "
             "thorough: every table of n <= 4"),
    "C04": P(hunt=True, strict_ops=["canon", "canon_inv"], post_filter=c04_library_order, mc=[{"module": "MC_Canon.tla", "cfg": "MC_Canon_q.cfg", "only": "quick"},
                            {"module": "MC_Canon.tla", "cfg": "MC_Canon_t.cfg", "tier": "thorough", "workers": 16}],
             rule="canonization calls with the walk hook; exact orbit minimum by enumeration in the specification",
             chunk_weight=15000),
    "C05": P(hunt=True, strict_ops=["canon"], mc=[{"module": "MC_Canon.tla", "cfg": "MC_Canon_q.cfg", "only": "quick"},
                            {"module": "MC_Canon.tla", "cfg": "MC_Canon_t.cfg", "tier": "thorough", "workers": 16}],
             rule="canonization certificates applied by the specification's ApplyCert; every representative fed back",
             chunk_weight=6000),
    "C06": P(hunt=True, strict_ops=["decomp", "unate", "consts"], mc=KMC(["decomp"]), machine_ops=["decomp"], rule="every variable of structured, cofactor-structured and one-bit-off tables, n = 1..12"),
    "C07": P(hunt=True, strict_ops=["bdd"], machine_ops=["bdd"],
             mc=[{"module": "MC_Bdd.tla", "cfg": "MC_Bdd_K2_q.cfg", "only": "quick"},
                 {"module": "MC_Bdd.tla", "cfg": "MC_Bdd_K2_t.cfg", "tier": "thorough", "workers": 16},
                 {"module": "MC_Bdd.tla", "cfg": "MC_Bdd_K3_t.cfg", "tier": "thorough", "workers": 16}],
             rule="lists of 0..4 functions with shared structure (adders, muxes, symmetric, cofactors, complements), n = 0..11; "
             "every single function of n <= 3"),
    "C08": P(hunt=True, strict_ops=["rel", "iter_start", "iter_next", "vnext"], machine_ops=["rel", "vnext"],
             mc=KMC(["order"]) + [{"module": "MC_Iter.tla", "cfg": "MC_Iter_K2_q.cfg", "only": "quick"},
                                  {"module": "MC_Iter.tla", "cfg": "MC_Iter_K3_q.cfg", "only": "quick"},
                                  {"module": "MC_Iter.tla", "cfg": "MC_Iter_K2_t.cfg", "tier": "thorough", "workers": 4},
                                  {"module": "MC_Iter.tla", "cfg": "MC_Iter_K3_t.cfg", "tier": "thorough", "workers": 4}],
             rule="ordering observations on structured pairs/triples (one-bit differences in low/high words), cross-size pairs, "
             "complete iterator runs, hooked successor from tables with all-ones low words"),
    "C09": P(hunt=True, strict_ops=["text", "from_hex"], mc=KMC(["text"]), machine_ops=["text"], rule="all formatting entry points on structured tables; parsing of printed strings, their "
             "single-byte mutations, multi-byte characters at chunk boundaries, wrong lengths, exhaustive alphabet strings for n <= 3"),
    "C10": P(["conv_rt", "conv_try", "conv_int"],
             "the same script executed on Lut and on LutN, events compared field by field by the trace specification; "
             "conversions checked against the specification",
             hunt=True, hunt_runs=[("checked", "lut"), ("checked", "lutn")], hunt_validate=[(0, 1)],
             phases=[{"gen": "C10a", "runs": [("checked", "lut"), ("checked", "lutn")], "validate": [(0, 1)]},
                     {"gen": "C10s", "runs": [("checked", "lut"), ("checked", "lutn")], "validate": [(0, 1)]},
                     {"gen": "C10b", "runs": [("checked", "lut")], "validate": [(0, None)]}],
             count_all=True),
    "C11": P(hunt=True, strict_ops=CTORS, mc=KMC(["ctors"]), machine_ops=["zero", "one", "parity", "majority", "nth_var", "threshold", "equals"], rule="all named constructors, n = 0..14, all i < n, k in 0..n+2 and 63, 64, 65, 2^32, usize::MAX, "
             "all count masks for n <= 5 and structured/random 64-bit masks above"),
    "C18": P(["optimize", "optimize_var"],
             mc=[{"module": "MC_Optim.tla", "cfg": "MC_Optim_n1.cfg"}, {"module": "MC_Optim.tla", "cfg": "MC_Optim_n2.cfg"},
                 {"module": "MC_Optim.tla", "cfg": "MC_Optim_n2x2.cfg", "tier": "thorough", "workers": 16}],
             rule="optimize_sop_mip / optimize_sopes_mip / optimize_esop_mip on all lists of 1..2 functions for n <= 2 and all single "
             "functions of n = 3 (sampled in the quick tier), gate-cost triples from {1,2,3}^3; soundness and cost compared with the "
             "specification's exact optimum (dynamic programming over candidate terms)",
             exe="voptim", profiles_thorough=["checked"], chunk_weight=40,
             assumptions=TRUST + ["HiGHS/good_lp are exercised as part of the code under test"]),
    "C19": P(["random", "rand_end"],
             "256 draws per size n = 0..12 and per thread, on 1 thread and on 4 (thorough: 16) concurrent threads, Lut and LutN: "
             "every draw well-formed; per thread every assignment sees both values and no two assignments have equal or "
             "complementary signatures; draws pairwise distinct for n >= 8 also across threads (false-alarm probability < 2^-200)",
             chunk_weight=1),
    "C12": P(hunt=True, proofs=["CubeLemmas.tla"], mc=TWO_MC, strict_ops=["t_mk", "t_val", "t_bin", "t_rel", "t_implut", "t_info", "t_all"],
             rule="all cubes and pairs over n <= 3 (5 thorough) with every assignment, implies_lut against all functions, "
             "constructors up to 32 variables, random 32-variable cubes with random 32-bit assignments"),
    "C13": P(hunt=True, mc=TWO_MC, strict_ops=["t_mk", "t_val", "t_bin", "t_not", "t_rel", "t_implut", "t_info", "t_all", "t_tolut"],
             rule="all exclusive cubes and pairs over n <= 4 (5 thorough), random 32-variable ones; all Soes of <= 2 (3) terms over n <= 3, random to n = 8"),
    "C14": P(hunt=True, proofs=["CubeLemmas.tla"], mc=TWO_MC, strict_ops=["t_mk", "t_val", "t_bin", "t_not", "t_info", "t_tolut"],
             rule="all cube lists of <= 2 (3) cubes over n <= 3, Lut->Sop->Lut for every function of n <= 3 (4), nested expressions "
             "(depth <= 4) over random redundant/overlapping/duplicated cube lists up to n = 10", chunk_weight=6000),
    "C15": P(hunt=True, mc=TWO_MC, strict_ops=["t_mk", "t_val", "t_bin", "t_not", "t_info", "t_tolut"],
             rule="Lut->Esop for every function of n <= 3 (4 thorough) and structured/random functions to n = 10; operators on random cube lists",
             chunk_weight=6000),
    "C16": P(hunt=True, mc=TWO_MC, strict_ops=["t_text", "t_alltext"], chunk_weight=4000,
             rule="printed text of all cubes / exclusive cubes over n <= 4, all forms of <= 2 (3) terms over n <= 3, random forms with "
             "two-digit variable indices; parsed and evaluated by the specification on every assignment"),
    "C17": P([], machine_ops=["nth_var", "flip", "swap", "swapadj", "fromcof", "setbit", "decomp"], rule="out-of-range indices/assignments, size-mismatched operands, wrong slice lengths on every index-taking "
             "method, executed by a debug-assertions+overflow-checks build and by a build without either; valid workload "
             "compared event by event between the two builds",
             phases=[{"gen": "C17", "runs": [("checked", "both"), ("fast", "both")], "validate": [(0, 1), (1, None)]}],
             profiles=["checked", "fast"], count_all=True,
             hunt=True, hunt_profile="fast", hunt_runs=[("checked", "both"), ("fast", "both")], hunt_validate=[(0, 1), (1, None)]),
}
