//! One trait over the two truth-table types of volute, so that the same script can be
//! executed on the dynamic `Lut` and on the fixed-size `StaticLut<N, T>` (`LutN`).
//!
//! Every method is a thin, literal call of one public API entry point (one syntactic form).

use std::cmp::Ordering;
use std::collections::hash_map::DefaultHasher;
use std::hash::{Hash, Hasher};
use volute::{DecompositionType, Lut, StaticLut};

pub fn decomp_name(d: DecompositionType) -> &'static str {
    match d {
        DecompositionType::None => "None",
        DecompositionType::Independent => "Independent",
        DecompositionType::Identity => "Identity",
        DecompositionType::Negation => "Negation",
        DecompositionType::And => "And",
        DecompositionType::Or => "Or",
        DecompositionType::Le => "Le",
        DecompositionType::Lt => "Lt",
        DecompositionType::Xor => "Xor",
    }
}

pub fn hash_of<T: Hash>(t: &T) -> u64 {
    let mut h = DefaultHasher::new();
    t.hash(&mut h);
    h.finish()
}

pub trait Tab: Sized + Clone + Eq + Ord + Hash + 'static {
    const TY: &'static str;
    // constructors (for LutN the size is the type's; `n` must match)
    fn c_zero(n: usize) -> Self;
    fn c_one(n: usize) -> Self;
    fn c_nth_var(n: usize, i: usize) -> Self;
    fn c_parity(n: usize) -> Self;
    fn c_majority(n: usize) -> Self;
    fn c_threshold(n: usize, k: usize) -> Self;
    fn c_equals(n: usize, k: usize) -> Self;
    fn c_symmetric(n: usize, c: usize) -> Self;
    fn c_random(n: usize) -> Self;
    fn c_default() -> Self;
    fn c_from_blocks(n: usize, b: &[u64]) -> Self;
    fn c_from_hex(n: usize, s: &str) -> Result<Self, ()>;
    fn c_from_cofactors(c0: &Self, c1: &Self, i: usize) -> Self;
    fn iter(n: usize) -> Box<dyn Iterator<Item = Self>>;
    /// A program on the CONCRETE iterator type (so that any overridden Iterator method is the one
    /// called): `nth(k)` for each k, then a consuming tail ("count" | "last" | "hint" | "none")
    fn iter_prog(n: usize, ks: &[usize], tail: &str) -> serde_json::Value;
    fn bdd(list: &[Self]) -> usize;
    /// Lut -> LutN (N = own size) -> Lut
    fn conv_rt(&self) -> Result<Self, ()>;
    /// Lut -> LutM -> Lut for an arbitrary static size M
    fn conv_try(&self, m: usize) -> Result<Self, ()>;

    // shared (identical method names on both types)
    fn nv(&self) -> usize;
    fn nbits(&self) -> usize;
    fn nblocks(&self) -> usize;
    fn blk(&self) -> Vec<u64>;
    fn val(&self, m: usize, form: &str) -> bool;
    fn setbit(&mut self, m: usize, form: &str);
    fn logic(g: &str, form: &str, a: &mut Self, b: &Self) -> Option<Self>;
    /// both operands are the SAME object (aliasing), for the forms that only borrow
    fn logic_self(g: &str, form: &str, a: &Self) -> Self;
    fn t_flip(&mut self, i: usize, form: &str) -> Option<Self>;
    fn t_swap(&mut self, i: usize, j: usize, form: &str) -> Option<Self>;
    fn t_swapadj(&mut self, i: usize, form: &str) -> Option<Self>;
    fn t_cofactors(&self, i: usize) -> (Self, Self);
    fn decomp(&self, i: usize) -> (&'static str, [bool; 4]);
    fn unate(&self, i: usize, pos: bool) -> bool;
    fn text(&self, form: &str) -> String;
    /// the formatting trait writing into a sink that fails after `limit` bytes; true if the write succeeded
    fn text_fail(&self, form: &str, limit: usize) -> bool;
    fn canon(&self, kind: &str) -> (Self, Vec<u8>, u32);
    fn vnext(&mut self) -> bool;
    fn rel(&self, o: &Self, form: &str) -> serde_json::Value;
}

pub fn iter_prog_on<T: Tab + Ord, I: Iterator<Item = T>>(mut it: I, ks: &[usize], tail: &str) -> serde_json::Value {
    use serde_json::json;
    let item = |x: Option<T>| match x {
        Some(t) => json!({"some": true, "t": crate::exec::enc(&t)}),
        None => json!({"some": false}),
    };
    let items: Vec<serde_json::Value> = ks.iter().map(|&k| item(it.nth(k))).collect();
    let t = match tail {
        "count" => json!({"count": crate::exec::bits_of(it.count() as u64)}),
        "last" => json!({"last": item(it.last())}),
        "fold" => json!({"count": crate::exec::bits_of(it.fold(0u64, |a, _| a + 1))}),
        "min" => json!({"last": item(it.min())}),
        "max" => json!({"last": item(it.max())}),
        "hint" => {
            let (lo, hi) = it.size_hint();
            json!({"lo": crate::exec::bits_of(lo as u64), "has_hi": hi.is_some(), "hi": crate::exec::bits_of(hi.unwrap_or(0) as u64)})
        }
        _ => json!({}),
    };
    json!({"items": items, "tail": t})
}

macro_rules! shared_methods {
    () => {
        fn nv(&self) -> usize {
            self.num_vars()
        }
        fn nbits(&self) -> usize {
            self.num_bits()
        }
        fn nblocks(&self) -> usize {
            self.num_blocks()
        }
        fn blk(&self) -> Vec<u64> {
            self.blocks().to_vec()
        }
        fn val(&self, m: usize, form: &str) -> bool {
            match form {
                "value" => self.value(m),
                "get_bit" => self.get_bit(m),
                _ => panic!("HARNESS: bad form"),
            }
        }
        fn setbit(&mut self, m: usize, form: &str) {
            match form {
                "set" => self.set_bit(m),
                "unset" => self.unset_bit(m),
                "val1" => self.set_value(m, true),
                "val0" => self.set_value(m, false),
                _ => panic!("HARNESS: bad form"),
            }
        }
        /// Returns Some(result) for forms producing a new value, None for in-place forms (result in `a`)
        fn logic(g: &str, form: &str, a: &mut Self, b: &Self) -> Option<Self> {
            match (g, form) {
                ("not", "named") => Some(a.not()),
                ("not", "inplace") => {
                    a.not_inplace();
                    None
                }
                ("not", "op_val") => Some(!a.clone()),
                ("not", "op_ref") => Some(!&*a),
                ("and", "named") => Some(a.and(b)),
                ("or", "named") => Some(a.or(b)),
                ("xor", "named") => Some(a.xor(b)),
                ("and", "inplace") => {
                    a.and_inplace(b);
                    None
                }
                ("or", "inplace") => {
                    a.or_inplace(b);
                    None
                }
                ("xor", "inplace") => {
                    a.xor_inplace(b);
                    None
                }
                ("and", "ref_ref") => Some(&*a & b),
                ("and", "ref_val") => Some(&*a & b.clone()),
                ("and", "val_ref") => Some(a.clone() & b),
                ("and", "val_val") => Some(a.clone() & b.clone()),
                ("or", "ref_ref") => Some(&*a | b),
                ("or", "ref_val") => Some(&*a | b.clone()),
                ("or", "val_ref") => Some(a.clone() | b),
                ("or", "val_val") => Some(a.clone() | b.clone()),
                ("xor", "ref_ref") => Some(&*a ^ b),
                ("xor", "ref_val") => Some(&*a ^ b.clone()),
                ("xor", "val_ref") => Some(a.clone() ^ b),
                ("xor", "val_val") => Some(a.clone() ^ b.clone()),
                ("and", "assign_val") => {
                    *a &= b.clone();
                    None
                }
                ("and", "assign_ref") => {
                    *a &= b;
                    None
                }
                ("or", "assign_val") => {
                    *a |= b.clone();
                    None
                }
                ("or", "assign_ref") => {
                    *a |= b;
                    None
                }
                ("xor", "assign_val") => {
                    *a ^= b.clone();
                    None
                }
                ("xor", "assign_ref") => {
                    *a ^= b;
                    None
                }
                _ => panic!("HARNESS: bad logic form {} {}", g, form),
            }
        }
        fn logic_self(g: &str, form: &str, a: &Self) -> Self {
            match (g, form) {
                ("and", "named") => a.and(a),
                ("or", "named") => a.or(a),
                ("xor", "named") => a.xor(a),
                ("and", "ref_ref") => a & a,
                ("or", "ref_ref") => a | a,
                ("xor", "ref_ref") => a ^ a,
                _ => panic!("HARNESS: bad aliasing form {} {}", g, form),
            }
        }
        fn t_flip(&mut self, i: usize, form: &str) -> Option<Self> {
            match form {
                "copy" => Some(self.flip(i)),
                "inplace" => {
                    self.flip_inplace(i);
                    None
                }
                _ => panic!("HARNESS: bad form"),
            }
        }
        fn t_swap(&mut self, i: usize, j: usize, form: &str) -> Option<Self> {
            match form {
                "copy" => Some(self.swap(i, j)),
                "inplace" => {
                    self.swap_inplace(i, j);
                    None
                }
                _ => panic!("HARNESS: bad form"),
            }
        }
        fn t_swapadj(&mut self, i: usize, form: &str) -> Option<Self> {
            match form {
                "copy" => Some(self.swap_adjacent(i)),
                "inplace" => {
                    self.swap_adjacent_inplace(i);
                    None
                }
                _ => panic!("HARNESS: bad form"),
            }
        }
        fn t_cofactors(&self, i: usize) -> (Self, Self) {
            self.cofactors(i)
        }
        fn decomp(&self, i: usize) -> (&'static str, [bool; 4]) {
            let d = self.top_decomposition(i);
            // the family predicates of DecompositionType, read before the class is named
            let cls = [d.is_trivial(), d.is_and_type(), d.is_xor_type(), d.is_simple_gate()];
            (decomp_name(d), cls)
        }
        fn unate(&self, i: usize, pos: bool) -> bool {
            if pos {
                self.is_pos_unate(i)
            } else {
                self.is_neg_unate(i)
            }
        }
        fn text(&self, form: &str) -> String {
            match form {
                "hex" => self.to_hex_string(),
                "bin" => self.to_bin_string(),
                "display" => format!("{}", self),
                "to_string" => self.to_string(),
                "lowerhex" => format!("{:x}", self),
                "binary" => format!("{:b}", self),
                // the same entry points with formatter flags (width, fill, alignment, precision, alternate, zero padding)
                "display_w" => format!("{:>40}", self),
                "display_f" => format!("{:*^37}", self),
                "display_p" => format!("{:.3}", self),
                "display_0" => format!("{:012}", self),
                "lowerhex_w" => format!("{:<44x}", self),
                "lowerhex_alt" => format!("{:#x}", self),
                "binary_w" => format!("{:>70b}", self),
                "binary_alt" => format!("{:#b}", self),
                "binary_p" => format!("{:.5b}", self),
                _ => panic!("HARNESS: bad form"),
            }
        }
        fn text_fail(&self, form: &str, limit: usize) -> bool {
            use std::fmt::Write;
            let mut sink = crate::two::FailingSink { left: limit };
            let res = match form {
                "lowerhex" => write!(sink, "{:x}", self),
                "binary" => write!(sink, "{:b}", self),
                _ => write!(sink, "{}", self),
            };
            res.is_ok()
        }
        fn canon(&self, kind: &str) -> (Self, Vec<u8>, u32) {
            match kind {
                "p" => {
                    let (r, p) = self.p_canonization();
                    (r, p.to_vec(), 0)
                }
                "n" => {
                    let (r, m) = self.n_canonization();
                    (r, (0..self.num_vars() as u8).collect(), m)
                }
                "npn" => {
                    let (r, p, m) = self.npn_canonization();
                    (r, p.to_vec(), m)
                }
                _ => panic!("HARNESS: bad kind"),
            }
        }
        fn vnext(&mut self) -> bool {
            self.verif_next_inplace()
        }
        fn rel(&self, o: &Self, form: &str) -> serde_json::Value {
            use serde_json::json;
            let ord = |x: Ordering| match x {
                Ordering::Less => "lt",
                Ordering::Equal => "eq",
                Ordering::Greater => "gt",
            };
            match form {
                "eq" => json!(self == o),
                "ne" => json!(self != o),
                "cmp" => json!(ord(self.cmp(o))),
                "pcmp" => json!(ord(self.partial_cmp(o).unwrap())),
                "lt" => json!(self < o),
                "le" => json!(self <= o),
                "gt" => json!(self > o),
                "ge" => json!(self >= o),
                "hasheq" => json!(hash_of(self) == hash_of(o)),
                "max" => json!(if std::cmp::max(self, o) == self { "a" } else { "b" }),
                "min" => json!(if std::cmp::min(self, o) == self { "a" } else { "b" }),
                _ => panic!("HARNESS: bad form"),
            }
        }
    };
}

impl Tab for Lut {
    const TY: &'static str = "lut";
    fn c_zero(n: usize) -> Self {
        Lut::zero(n)
    }
    fn c_one(n: usize) -> Self {
        Lut::one(n)
    }
    fn c_nth_var(n: usize, i: usize) -> Self {
        Lut::nth_var(n, i)
    }
    fn c_parity(n: usize) -> Self {
        Lut::parity(n)
    }
    fn c_majority(n: usize) -> Self {
        Lut::majority(n)
    }
    fn c_threshold(n: usize, k: usize) -> Self {
        Lut::threshold(n, k)
    }
    fn c_equals(n: usize, k: usize) -> Self {
        Lut::equals(n, k)
    }
    fn c_symmetric(n: usize, c: usize) -> Self {
        Lut::symmetric(n, c)
    }
    fn c_random(n: usize) -> Self {
        Lut::random(n)
    }
    fn c_default() -> Self {
        Lut::default()
    }
    fn c_from_blocks(n: usize, b: &[u64]) -> Self {
        Lut::from_blocks(n, b)
    }
    fn c_from_hex(n: usize, s: &str) -> Result<Self, ()> {
        Lut::from_hex_string(n, s)
    }
    fn c_from_cofactors(c0: &Self, c1: &Self, i: usize) -> Self {
        Lut::from_cofactors(c0, c1, i)
    }
    fn iter(n: usize) -> Box<dyn Iterator<Item = Self>> {
        Box::new(Lut::all_functions(n))
    }
    fn iter_prog(n: usize, ks: &[usize], tail: &str) -> serde_json::Value {
        iter_prog_on(Lut::all_functions(n), ks, tail)
    }
    fn bdd(list: &[Self]) -> usize {
        Lut::bdd_complexity(list)
    }
    fn conv_rt(&self) -> Result<Self, ()> {
        self.conv_try(self.num_vars())
    }
    fn conv_try(&self, m: usize) -> Result<Self, ()> {
        crate::with_static!(m, L, L::try_from(self.clone()).map(Lut::from))
    }
    shared_methods!();
}

impl<const N: usize, const T: usize> Tab for StaticLut<N, T> {
    const TY: &'static str = "lutn";
    fn c_zero(n: usize) -> Self {
        assert_eq!(n, N, "HARNESS: size");
        Self::zero()
    }
    fn c_one(n: usize) -> Self {
        assert_eq!(n, N, "HARNESS: size");
        Self::one()
    }
    fn c_nth_var(n: usize, i: usize) -> Self {
        assert_eq!(n, N, "HARNESS: size");
        Self::nth_var(i)
    }
    fn c_parity(n: usize) -> Self {
        assert_eq!(n, N, "HARNESS: size");
        Self::parity()
    }
    fn c_majority(n: usize) -> Self {
        assert_eq!(n, N, "HARNESS: size");
        Self::majority()
    }
    fn c_threshold(n: usize, k: usize) -> Self {
        assert_eq!(n, N, "HARNESS: size");
        Self::threshold(k)
    }
    fn c_equals(n: usize, k: usize) -> Self {
        assert_eq!(n, N, "HARNESS: size");
        Self::equals(k)
    }
    fn c_symmetric(n: usize, c: usize) -> Self {
        assert_eq!(n, N, "HARNESS: size");
        Self::symmetric(c)
    }
    fn c_random(n: usize) -> Self {
        assert_eq!(n, N, "HARNESS: size");
        Self::random()
    }
    fn c_default() -> Self {
        Self::default()
    }
    fn c_from_blocks(n: usize, b: &[u64]) -> Self {
        assert_eq!(n, N, "HARNESS: size");
        Self::from_blocks(b)
    }
    fn c_from_hex(n: usize, s: &str) -> Result<Self, ()> {
        assert_eq!(n, N, "HARNESS: size");
        Self::from_hex_string(s)
    }
    fn c_from_cofactors(c0: &Self, c1: &Self, i: usize) -> Self {
        Self::from_cofactors(c0, c1, i)
    }
    fn iter(n: usize) -> Box<dyn Iterator<Item = Self>> {
        assert_eq!(n, N, "HARNESS: size");
        Box::new(Self::all_functions())
    }
    fn iter_prog(n: usize, ks: &[usize], tail: &str) -> serde_json::Value {
        assert_eq!(n, N, "HARNESS: size");
        iter_prog_on(Self::all_functions(), ks, tail)
    }
    fn bdd(list: &[Self]) -> usize {
        Self::bdd_complexity(list)
    }
    fn conv_rt(&self) -> Result<Self, ()> {
        panic!("HARNESS: conversions are driven from the Lut side")
    }
    fn conv_try(&self, _m: usize) -> Result<Self, ()> {
        panic!("HARNESS: conversions are driven from the Lut side")
    }
    shared_methods!();
}

/// Run `$body` with the type alias `$L` bound to the static Lut type of size `$n`
#[macro_export]
macro_rules! with_static {
    ($n:expr, $L:ident, $body:expr) => {
        match $n {
            0 => {
                type $L = volute::Lut0;
                $body
            }
            1 => {
                type $L = volute::Lut1;
                $body
            }
            2 => {
                type $L = volute::Lut2;
                $body
            }
            3 => {
                type $L = volute::Lut3;
                $body
            }
            4 => {
                type $L = volute::Lut4;
                $body
            }
            5 => {
                type $L = volute::Lut5;
                $body
            }
            6 => {
                type $L = volute::Lut6;
                $body
            }
            7 => {
                type $L = volute::Lut7;
                $body
            }
            8 => {
                type $L = volute::Lut8;
                $body
            }
            9 => {
                type $L = volute::Lut9;
                $body
            }
            10 => {
                type $L = volute::Lut10;
                $body
            }
            11 => {
                type $L = volute::Lut11;
                $body
            }
            12 => {
                type $L = volute::Lut12;
                $body
            }
            _ => panic!("HARNESS: no static Lut of this size"),
        }
    };
}
