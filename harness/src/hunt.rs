//! `vdrive hunt`: screen a large number of random single-call episodes on the real code against the
//! naive re-statement in naive.rs, and write the suspicious ones (plus a stratified sample of the
//! others) to a script.  The script is then executed and judged by the specification like any other;
//! nothing is decided here.

use crate::exec::State;
use crate::gen::common::*;
use crate::gen::lutops::{BIN_FORMS, NOT_FORMS, REL_FORMS, TEXT_FORMS};
use crate::gen::Episode;
use crate::naive;
use crate::tab::Tab;
use rand::rngs::StdRng;
use rand::Rng;
use serde_json::{json, Value};
use std::collections::{HashMap, HashSet};
use std::time::{Duration, Instant};
use volute::Lut;

fn load(d: usize, n: usize, on: &[usize]) -> Value {
    json!({"op": "load", "d": d, "n": n, "on": on})
}

struct Pool {
    tables: HashMap<usize, Vec<Vec<usize>>>,
}

impl Pool {
    fn table(&mut self, n: usize, r: &mut StdRng) -> Vec<usize> {
        if r.gen_range(0..3) == 0 {
            return random_on(n, r);
        }
        let e = self.tables.entry(n).or_insert_with(|| structured(n, r));
        if r.gen_range(0..40) == 0 {
            *e = structured(n, r); // refresh the structured sample now and then
        }
        e[r.gen_range(0..e.len())].clone()
    }
}

fn pick_n(r: &mut StdRng, lo: usize, hi: usize) -> usize {
    // every size gets a fair share; large sizes are slower, so slightly fewer of them
    let n = r.gen_range(lo..=hi);
    if n >= 11 && r.gen_range(0..3) != 0 {
        r.gen_range(lo..=hi.min(10))
    } else {
        n
    }
}

/// One random episode (loads + one call under scrutiny) for the property
fn candidate(prop: &str, r: &mut StdRng, pool: &mut Pool) -> (usize, Vec<Value>) {
    match prop {
        "C01" => {
            let n = pick_n(r, 0, 14);
            let (a, b) = (pool.table(n, r), pool.table(n, r));
            let g = ["not", "and", "or", "xor"][r.gen_range(0..4)];
            let f = if g == "not" { NOT_FORMS[r.gen_range(0..4)] } else { BIN_FORMS[r.gen_range(0..8)] };
            let inpl = f == "inplace" || f.starts_with("assign");
            let same = g != "not" && r.gen_range(0..10) == 0;
            let mut ops = vec![load(0, n, &a), load(1, n, &b)];
            if inpl {
                ops.push(json!({"op": "copy", "a": 0, "d": 2}));
                ops.push(json!({"op": "logic", "g": g, "f": f, "a": 2, "b": if same {2} else {1}, "d": 2}));
            } else {
                ops.push(json!({"op": "logic", "g": g, "f": f, "a": 0, "b": if same {0} else {1}, "d": 2}));
            }
            (n, ops)
        }
        "C03" => {
            let n = pick_n(r, 1, 14);
            let t = pool.table(n, r);
            let i = r.gen_range(0..n);
            let j = r.gen_range(0..n);
            let f = if r.gen() { "copy" } else { "inplace" };
            let mut ops = vec![load(0, n, &t)];
            let (a, d) = if f == "inplace" {
                ops.push(json!({"op": "copy", "a": 0, "d": 1}));
                (1, 1)
            } else {
                (0, 1)
            };
            match r.gen_range(0..5) {
                0 => ops.push(json!({"op": "flip", "f": f, "a": a, "d": d, "i": i})),
                1 => ops.push(json!({"op": "swap", "f": f, "a": a, "d": d, "i": i, "j": j})),
                2 if n >= 2 => ops.push(json!({"op": "swapadj", "f": f, "a": a, "d": d, "i": r.gen_range(0..n - 1)})),
                3 => ops.push(json!({"op": "cofactors", "a": 0, "d0": 3, "d1": 4, "i": i})),
                _ => {
                    let u = pool.table(n, r);
                    ops.push(load(2, n, &u));
                    ops.push(json!({"op": "fromcof", "a": 0, "b": 2, "d": 5, "i": i}));
                }
            }
            (n, ops)
        }
        "C06" => {
            let n = pick_n(r, 1, 12);
            let mut t = pool.table(n, r);
            // cofactor-structured variants of the table for a random variable
            let v = r.gen_range(0..n);
            let mode = r.gen_range(0..8);
            if mode < 5 {
                let tt = naive::from_on(n, &t);
                let other = naive::from_on(n, &pool.table(n, r));
                let z = vec![false; 1 << n];
                let o = vec![true; 1 << n];
                let g = naive::cof(&tt, v, false);
                let ng: Vec<bool> = g.iter().map(|b| !*b).collect();
                let (c0, c1) = match mode {
                    0 => (z.clone(), g.clone()),
                    1 => (g.clone(), o.clone()),
                    2 => (o.clone(), g.clone()),
                    3 => (g.clone(), ng),
                    _ => (g.clone(), naive::cof(&other, v, false)),
                };
                let mut f = naive::fromcof(&c0, &c1, v);
                if r.gen_range(0..3) == 0 {
                    let m = r.gen_range(0..f.len());
                    f[m] = !f[m];
                }
                t = naive::to_on(&f);
            }
            let q = if r.gen_range(0..3) == 0 { r.gen_range(0..n) } else { v };
            let op = match r.gen_range(0..3) {
                0 => json!({"op": "decomp", "a": 0, "i": q}),
                1 => json!({"op": "unate", "a": 0, "i": q, "f": "pos"}),
                _ => json!({"op": "unate", "a": 0, "i": q, "f": "neg"}),
            };
            (n, vec![load(0, n, &t), op])
        }
        "C07" => {
            let n = pick_n(r, 0, 11);
            let k = r.gen_range(1..=4usize);
            let mut ops = Vec::new();
            let base = pool.table(n, r);
            for s in 0..k {
                // related functions share structure: the base, its complement, a flip, or a fresh table
                let t = match r.gen_range(0..4) {
                    0 => base.clone(),
                    1 => naive::to_on(&naive::from_on(n, &base).iter().map(|b| !*b).collect()),
                    2 if n > 0 => naive::to_on(&naive::flip(&naive::from_on(n, &base), r.gen_range(0..n))),
                    _ => pool.table(n, r),
                };
                ops.push(load(s, n, &t));
            }
            let xs: Vec<usize> = (0..k).collect();
            ops.push(json!({"op": "bdd", "xs": xs}));
            (n, ops)
        }
        "C08" if r.gen_range(0..5) == 0 => {
            // a program on the iterator object: nth jumps, then a consuming tail
            let n = r.gen_range(0..=5usize);
            let t: u64 = 1u64 << (1u64 << n);
            let len = r.gen_range(0..4);
            let ks: Vec<usize> = (0..len)
                .map(|_| match r.gen_range(0..5) {
                    0 => 0,
                    1 => r.gen_range(0..4),
                    2 if n <= 4 => (t as usize).saturating_sub(r.gen_range(0..3)),
                    3 if n <= 4 => t as usize + r.gen_range(0..3),
                    _ => r.gen_range(0..=(t.min(1 << 16) / 2) as usize),
                })
                .collect();
            let tail = if n == 5 { ["hint", "none"][r.gen_range(0..2)] } else { ["count", "last", "hint", "none", "fold", "min", "max"][r.gen_range(0..7)] };
            (n, vec![json!({"op": "iter_prog", "n": n, "ks": ks, "tail": tail})])
        }
        "C08" => {
            let n = pick_n(r, 0, 12);
            let a = pool.table(n, r);
            if r.gen_range(0..4) == 0 {
                return (n, vec![load(0, n, &a), json!({"op": "vnext", "a": 0})]);
            }
            let mut b = pool.table(n, r);
            if r.gen() {
                // equal above a random cut, different below
                let cut = r.gen_range(0..dom(n));
                let low = random_on(n, r);
                b = on_from_fn(n, |m| if m >= cut { a.binary_search(&m).is_ok() } else { low.binary_search(&m).is_ok() });
            }
            (n, vec![load(0, n, &a), load(1, n, &b), json!({"op": "rel", "a": 0, "b": 1, "f": REL_FORMS[r.gen_range(0..10)]})])
        }
        "C09" if r.gen_range(0..3) == 0 => {
            // parsing: the printed string of a table with a few bytes replaced / inserted / removed
            let n = pick_n(r, 0, 10);
            let t = naive::from_on(n, &pool.table(n, r));
            let mut s: Vec<u8> = naive::hex(&t);
            let alphabet: Vec<u8> = (0u8..128).chain(*b"0123456789abcdefABCDEF+-").collect();
            for _ in 0..r.gen_range(0..3) {
                let pos = r.gen_range(0..s.len().max(1));
                match r.gen_range(0..8) {
                    0 if !s.is_empty() => {
                        s.remove(pos.min(s.len() - 1));
                    }
                    1 => s.insert(pos.min(s.len()), alphabet[r.gen_range(0..alphabet.len())]),
                    2 if s.len() >= 2 && pos + 1 < s.len() => {
                        // a two-byte character in place of two digits: bytes alias digits when masked to 7 bits
                        let lo = b"0123456789abcdef"[r.gen_range(0..16)];
                        s[pos] = 0xc3;
                        s[pos + 1] = 0x80 | (lo & 0x3f);
                    }
                    _ if !s.is_empty() => {
                        // a replaced byte; positions at multiples of 16 from either end more often
                        let q = if r.gen() && s.len() > 16 { (r.gen_range(0..s.len() / 16) * 16 + r.gen_range(0..2) * 15).min(s.len() - 1) } else { pos.min(s.len() - 1) };
                        s[q] = alphabet[r.gen_range(0..alphabet.len())];
                    }
                    _ => {}
                }
            }
            if std::str::from_utf8(&s).is_err() {
                s = naive::hex(&t);
            }
            (n, vec![json!({"op": "from_hex", "d": 0, "n": n, "s": s})])
        }
        "C09" => {
            let n = pick_n(r, 0, 12);
            let t = pool.table(n, r);
            (n, vec![load(0, n, &t), json!({"op": "text", "a": 0, "f": TEXT_FORMS[r.gen_range(0..6)]})])
        }
        "C11" => {
            let n = pick_n(r, 0, 14);
            let op = match r.gen_range(0..8) {
                0 => json!({"op": "parity", "d": 0, "n": n}),
                1 => json!({"op": "majority", "d": 0, "n": n}),
                2 if n > 0 => json!({"op": "nth_var", "d": 0, "n": n, "i": r.gen_range(0..n)}),
                3 | 4 => {
                    let k = if r.gen_range(0..4) == 0 { [63usize, 64, 65, 128, 1 << 32, usize::MAX][r.gen_range(0..6)] } else { r.gen_range(0..=n + 2) };
                    let mut m = serde_json::Map::new();
                    m.insert("op".into(), json!(if r.gen() { "threshold" } else { "equals" }));
                    m.insert("d".into(), json!(0));
                    m.insert("n".into(), json!(n));
                    crate::exec::put_usize(&mut m, "k", k);
                    Value::Object(m)
                }
                _ => {
                    let all = (1u64 << (n + 1)) - 1;
                    let c: u64 = match r.gen_range(0..4) {
                        0 => r.gen::<u64>(),
                        1 => all ^ (1u64 << r.gen_range(0..=n)),
                        2 => r.gen::<u64>() & all,
                        _ => (1u64 << r.gen_range(0..=n + 1)) - 1,
                    };
                    json!({"op": "symmetric", "d": 0, "n": n, "cb": crate::exec::bits_of(c), "c_s": c.to_string()})
                }
            };
            (n, vec![op])
        }
        "C17" => {
            // one call with an argument outside its domain: the documented behaviour is a panic, in every build
            let n = pick_n(r, 0, 9);
            let f0 = pool.table(n, r);
            let f1 = pool.table(n, r);
            let bad_i = match r.gen_range(0..5) {
                0 => n + r.gen_range(0..4),
                1 => n + r.gen_range(0..200),
                2 => 64 * r.gen_range(1..5) + r.gen_range(0..n + 2),
                3 => [usize::MAX, usize::MAX - 1, 1usize << 32, 1usize << 63, (1usize << 32) + n][r.gen_range(0..5)],
                _ => r.gen_range(n..n + 71),
            };
            let d = dom(n);
            let bad_m = match r.gen_range(0..4) {
                0 => d + r.gen_range(0..4),
                1 => d * (1 << r.gen_range(0..8)) + r.gen_range(0..d),
                2 => [usize::MAX, 1usize << 32, 1usize << 63][r.gen_range(0..3)],
                _ => d + r.gen_range(0..200),
            };
            let good = if n > 0 { r.gen_range(0..n) } else { 0 };
            let f = if r.gen() { "copy" } else { "inplace" };
            let dd = if f == "copy" { 2 } else { 0 };
            let mut m = serde_json::Map::new();
            let mut put = |k: &str, v: Value| {
                m.insert(k.to_string(), v);
            };
            let which = r.gen_range(0..11);
            match which {
                0 => { put("op", json!("nth_var")); put("d", json!(2)); put("n", json!(n)); }
                1 => { put("op", json!("flip")); put("f", json!(f)); put("a", json!(0)); put("d", json!(dd)); }
                2 => { put("op", json!("swapadj")); put("f", json!(f)); put("a", json!(0)); put("d", json!(dd)); }
                3 => { put("op", json!("swap")); put("f", json!(f)); put("a", json!(0)); put("d", json!(dd)); put("j", json!(good)); }
                4 => { put("op", json!("cofactors")); put("a", json!(0)); put("d0", json!(2)); put("d1", json!(3)); }
                5 => { put("op", json!("fromcof")); put("a", json!(0)); put("b", json!(1)); put("d", json!(2)); }
                6 => { put("op", json!("decomp")); put("a", json!(0)); }
                7 => { put("op", json!("unate")); put("a", json!(0)); put("f", json!(if r.gen() { "pos" } else { "neg" })); }
                8 => { put("op", json!("value")); put("a", json!(0)); put("f", json!(if r.gen() { "value" } else { "get_bit" })); }
                _ => { put("op", json!("setbit")); put("a", json!(0)); put("f", json!(["set", "unset", "val1", "val0"][r.gen_range(0..4)])); }
            }
            if which >= 8 {
                crate::exec::put_usize(&mut m, "m", bad_m);
            } else if which == 3 && n > 0 && r.gen() {
                // the bad index second
                m.insert("i".into(), json!(good));
                crate::exec::put_usize(&mut m, "j", bad_i);
            } else if which == 2 {
                crate::exec::put_usize(&mut m, "i", if r.gen() && n > 0 { n - 1 } else { bad_i });
            } else {
                crate::exec::put_usize(&mut m, "i", bad_i);
            }
            (n, vec![load(0, n, &f0), load(1, n, &f1), Value::Object(m)])
        }
        "C04" if r.gen_range(0..4) == 0 => {
            // orbit invariance: f and a random variant of it (built by the harness) get the same representative
            let kind = ["n", "p", "npn", "npn"][r.gen_range(0..4)];
            let n = match r.gen_range(0..60) {
                0 => 8,
                1..=4 => 7,
                _ => r.gen_range(1..=6usize),
            };
            let t = pool.table(n, r);
            let mut perm: Vec<usize> = (0..n).collect();
            if kind != "n" {
                for i in (1..n).rev() {
                    perm.swap(i, r.gen_range(0..=i));
                }
            }
            let mask: Vec<usize> = if kind == "p" { vec![] } else { (0..=n).filter(|_| r.gen::<bool>()).collect() };
            (n, vec![load(0, n, &t), json!({"op": "canon_inv", "kind": kind, "a": 0, "tperm": perm, "tmask": mask})])
        }
        "C04" | "C05" => {
            let kind = ["n", "n", "p", "npn"][r.gen_range(0..4)];
            let hi = if prop == "C05" { 7 } else if kind == "n" { 8 } else if kind == "p" { 6 } else { 5 };
            let n = r.gen_range(0..=hi);
            let t = pool.table(n, r);
            (n, vec![load(0, n, &t), json!({"op": "canon", "kind": kind, "a": 0, "d": 1})])
        }
        _ => panic!("HARNESS: no hunt for {}", prop),
    }
}

thread_local! {
    static C17_MODE: std::cell::Cell<bool> = std::cell::Cell::new(false);
}

fn slot_table(ev: &Value, s: usize, before: Option<&naive::Tab>) -> Option<(naive::Tab, bool)> {
    // (meaning, well-formed) of slot s after the event
    for p in ev["post"].as_array()? {
        if p["s"].as_u64()? as usize == s {
            if p.get("same").is_some() {
                return before.map(|t| (t.clone(), true));
            }
            let t = &p["t"];
            let n = t["n"].as_u64()? as usize;
            let nb = t["nb"].as_u64()? as usize;
            let on: Vec<usize> = t["on"].as_array()?.iter().map(|x| x.as_u64().unwrap() as usize).collect();
            let wf = nb == (if n <= 6 { 1 } else { 1usize << (n - 6) }) && on.iter().all(|&m| m < (1 << n)) && t.get("valpanic").is_none();
            let meaning: Vec<usize> = match t.get("val") {
                Some(v) => v.as_array()?.iter().map(|x| x.as_u64().unwrap() as usize).collect(),
                None => on.into_iter().filter(|&m| m < (1 << n)).collect(),
            };
            return Some((naive::from_on(n, &meaning), wf));
        }
    }
    None
}

/// Does the event look wrong to the naive oracle?  (true = forward it to the specification)
fn suspicious(op: &Value, ev: &Value, slots: &[Option<naive::Tab>]) -> bool {
    let name = op["op"].as_str().unwrap();
    if C17_MODE.with(|c| c.get()) {
        return ev["out"] != "panic";
    }
    if name == "from_hex" {
        let n = op["n"].as_u64().unwrap() as usize;
        let s: Vec<u8> = op["s"].as_array().unwrap().iter().map(|x| x.as_u64().unwrap() as u8).collect();
        let w = if n <= 2 { 1 } else { 1usize << (n - 2) };
        let hv = |b: u8| (b as char).to_digit(16);
        let shape = s.len() == w && s.iter().all(|&b| b < 128 && hv(b).is_some());
        let mut t = vec![false; 1 << n];
        let mut fits = shape;
        if shape {
            for (d, &b) in s.iter().enumerate() {
                let v = hv(b).unwrap() as usize;
                for c in 0..4 {
                    if (v >> c) & 1 == 1 {
                        let m = 4 * (w - 1 - d) + c;
                        if m < t.len() {
                            t[m] = true;
                        } else {
                            fits = false;
                        }
                    }
                }
            }
        }
        let upper = s.iter().any(|b| b.is_ascii_uppercase());
        return match ev["out"].as_str().unwrap() {
            "ok" => !fits || match slot_table(ev, 0, None) { Some((r, wf)) => r != t || !wf, None => true },
            "err" => fits && !upper,
            _ => true,
        };
    }
    if ev["out"] != "ok" {
        return true;
    }
    let g = |k: &str| op[k].as_u64().unwrap() as usize;
    let sl = |s: usize| slots[s].as_ref().unwrap();
    let expect_tab = |s: usize, exp: &naive::Tab| -> bool {
        match slot_table(ev, s, slots[s].as_ref()) {
            Some((t, wf)) => &t != exp || !wf,
            None => true,
        }
    };
    match name {
        "logic" => {
            let a = sl(g("a"));
            let b = sl(g("b"));
            let exp = naive::logic(op["g"].as_str().unwrap(), a, b);
            let mut bad = expect_tab(g("d"), &exp);
            if g("d") != g("a") {
                bad |= expect_tab(g("a"), a);
            }
            if g("d") != g("b") {
                bad |= expect_tab(g("b"), b);
            }
            bad
        }
        "flip" => expect_tab(g("d"), &naive::flip(sl(g("a")), g("i"))),
        "swap" => expect_tab(g("d"), &naive::swap(sl(g("a")), g("i"), g("j"))),
        "swapadj" => expect_tab(g("d"), &naive::swap(sl(g("a")), g("i"), g("i") + 1)),
        "cofactors" => {
            expect_tab(g("d0"), &naive::cof(sl(g("a")), g("i"), false)) || expect_tab(g("d1"), &naive::cof(sl(g("a")), g("i"), true))
        }
        "fromcof" => expect_tab(g("d"), &naive::fromcof(sl(g("a")), sl(g("b")), g("i"))),
        "decomp" => ev["r"] != naive::decomp(sl(g("a")), g("i")),
        "unate" => ev["r"] != naive::unate(sl(g("a")), g("i"), op["f"] == "pos"),
        "bdd" => {
            let xs: Vec<usize> = op["xs"].as_array().unwrap().iter().map(|x| x.as_u64().unwrap() as usize).collect();
            let fs: Vec<naive::Tab> = xs.iter().map(|&s| sl(s).clone()).collect();
            let n = if fs.is_empty() { 0 } else { naive::nvars(&fs[0]) };
            ev["r"] != naive::bdd(n, &fs)
        }
        "rel" => {
            let c = naive::cmp(sl(g("a")), sl(g("b")));
            let exp: Value = match op["f"].as_str().unwrap() {
                "cmp" | "pcmp" => json!(c),
                "eq" => json!(c == "eq"),
                "ne" => json!(c != "eq"),
                "lt" => json!(c == "lt"),
                "le" => json!(c != "gt"),
                "gt" => json!(c == "gt"),
                "ge" => json!(c != "lt"),
                "max" => json!(if c != "lt" { "a" } else { "b" }),
                "min" => json!(if c != "gt" { "a" } else { "b" }),
                _ => return false,
            };
            ev["r"] != exp
        }
        "iter_prog" => {
            let n = g("n");
            let total: u128 = 1u128 << (1u32 << n);
            let mut cur: u128 = 0;
            let num = |j: &Value| -> Option<u128> {
                let t = &j["t"];
                if t["n"].as_u64() != Some(n as u64) || t["nb"].as_u64() != Some(1) || t.get("val").is_some() {
                    return None;
                }
                let mut v = 0u128;
                for x in t["on"].as_array()? {
                    let b = x.as_u64()?;
                    if b >= (1 << n) {
                        return None;
                    }
                    v |= 1u128 << b;
                }
                Some(v)
            };
            let item_bad = |j: &Value, exp: Option<u128>| -> bool {
                match exp {
                    None => j["some"] != false,
                    Some(v) => j["some"] != true || num(j) != Some(v),
                }
            };
            let ks = op["ks"].as_array().unwrap();
            let items = ev["r"]["items"].as_array().unwrap();
            if items.len() != ks.len() {
                return true;
            }
            for (k, j) in ks.iter().zip(items.iter()) {
                let k = k.as_u64().unwrap() as u128;
                let exp = if cur + k < total {
                    let v = cur + k;
                    cur = v + 1;
                    Some(v)
                } else {
                    cur = total;
                    None
                };
                if item_bad(j, exp) {
                    return true;
                }
            }
            let left = total - cur;
            let bits = |v: &Value| -> u128 { v.as_array().map(|a| a.iter().fold(0u128, |m, x| m | (1u128 << x.as_u64().unwrap()))).unwrap_or(0) };
            let tl = &ev["r"]["tail"];
            match op["tail"].as_str().unwrap() {
                "count" | "fold" => bits(&tl["count"]) != left,
                "last" | "max" => item_bad(&tl["last"], if left > 0 { Some(total - 1) } else { None }),
                "min" => item_bad(&tl["last"], if left > 0 { Some(cur) } else { None }),
                "hint" => bits(&tl["lo"]) > left || (tl["has_hi"] == true && bits(&tl["hi"]) < left),
                _ => false,
            }
        }
        "vnext" => {
            let (t, ok) = naive::succ(sl(g("a")));
            ev["r"] != ok || expect_tab(g("a"), &t)
        }
        "text" => {
            let t = sl(g("a"));
            let n = naive::nvars(t);
            let wrap = |body: Vec<u8>| -> Vec<u8> { format!("Lut{}(", n).into_bytes().into_iter().chain(body).chain(b")".to_vec()).collect() };
            let exp = match op["f"].as_str().unwrap() {
                "hex" => naive::hex(t),
                "bin" => naive::bin(t),
                "binary" => wrap(naive::bin(t)),
                _ => wrap(naive::hex(t)),
            };
            ev["r"] != json!(exp)
        }
        "from_hex" => unreachable!(),
        "zero" | "one" | "parity" | "majority" | "nth_var" | "threshold" | "equals" | "symmetric" => match naive::ctor(op) {
            Some(exp) => expect_tab(g("d"), &exp),
            None => false,
        },
        "canon_inv" => ev["r"]["r1"]["on"] != ev["r"]["r2"]["on"] || ev["r"]["r1"]["n"] != ev["r"]["r2"]["n"],
        "canon" => {
            let f = sl(g("a"));
            let kind = op["kind"].as_str().unwrap();
            let res = match slot_table(ev, g("d"), None) {
                Some((t, wf)) => {
                    if !wf {
                        return true;
                    }
                    t
                }
                None => return true,
            };
            if let Some(m) = naive::orbit_min(kind, f) {
                if m != res {
                    return true;
                }
            }
            let perm: Vec<usize> = ev["r"]["perm"].as_array().unwrap().iter().map(|x| x.as_u64().unwrap() as usize).collect();
            let mask: Vec<usize> = ev["r"]["mask"].as_array().unwrap().iter().map(|x| x.as_u64().unwrap() as usize).collect();
            match naive::apply_cert(f, &perm, &mask) {
                Some(gt) => gt != res || (kind == "p" && !mask.is_empty()) || (kind == "n" && perm != (0..perm.len()).collect::<Vec<_>>()),
                None => true,
            }
        }
        _ => false,
    }
}

fn judge<T: Tab>(ops: &[Value]) -> bool {
    let mut st: State<T> = State::new();
    let mut slots: Vec<Option<naive::Tab>> = (0..8).map(|_| None).collect();
    for (k, op) in ops.iter().enumerate() {
        let ev = st.exec(op);
        let last = k + 1 == ops.len();
        if last {
            return suspicious(op, &ev, &slots);
        }
        match op["op"].as_str().unwrap() {
            "load" => {
                let n = op["n"].as_u64().unwrap() as usize;
                let on: Vec<usize> = op["on"].as_array().unwrap().iter().map(|x| x.as_u64().unwrap() as usize).collect();
                slots[op["d"].as_u64().unwrap() as usize] = Some(naive::from_on(n, &on));
            }
            "copy" => {
                let a = op["a"].as_u64().unwrap() as usize;
                slots[op["d"].as_u64().unwrap() as usize] = slots[a].clone();
            }
            _ => {}
        }
        if ev["out"] != "ok" {
            return true; // a setup step failed: let the specification see it
        }
    }
    false
}

pub struct HuntResult {
    pub episodes: Vec<Episode>,
    pub screened: usize,
    pub suspicious: usize,
}

fn post_malformed(ev: &Value) -> bool {
    if let Some(ps) = ev["post"].as_array() {
        for p in ps {
            if let Some(t) = p.get("t") {
                let n = t["n"].as_u64().unwrap_or(0) as usize;
                let nb = t["nb"].as_u64().unwrap_or(0) as usize;
                let bad = nb != (if n <= 6 { 1 } else { 1usize << (n - 6) })
                    || t.get("val").is_some()
                    || t.get("valpanic").is_some()
                    || t["on"].as_array().map(|a| a.iter().any(|x| x.as_u64().unwrap() as usize >= (1usize << n))).unwrap_or(true);
                if bad {
                    return true;
                }
            }
        }
    }
    false
}

fn run_all<T: Tab>(ops: &[Value]) -> Vec<Value> {
    let mut st: State<T> = State::new();
    ops.iter()
        .map(|op| {
            let mut ev = st.exec(op);
            ev.as_object_mut().unwrap().remove("ty");
            ev
        })
        .collect()
}

/// C02 / C10: random call histories.  C02: some produced table is malformed (or a valid call fails);
/// C10: the two table types do not produce the same events.
fn hunt_histories(prop: &str, seed: u64, budget_ms: u64) -> HuntResult {
    use crate::gen::lutops::{history, HistCfg, REL_FORMS};
    let mut r = rng(seed, 7778);
    let t0 = Instant::now();
    let c10 = prop == "C10";
    let cfg = HistCfg {
        len: 10,
        queries: c10,
        relforms: if c10 { &REL_FORMS } else { &["eq", "ne", "cmp", "pcmp", "hasheq"] },
        canon_max_n: 5,
        allow_random: !c10,
        reload: !c10,
    };
    let mut out = Vec::new();
    let (mut screened, mut nsusp, mut nsample) = (0usize, 0usize, 0usize);
    while t0.elapsed() < Duration::from_millis(budget_ms) && nsusp < 40 {
        let n = pick_n(&mut r, 0, 12);
        let ops = history(n, &mut r, &cfg);
        screened += 1;
        let a = run_all::<Lut>(&ops);
        let b = crate::with_static!(n, L, run_all::<L>(&ops));
        let bad = if c10 {
            a != b
        } else {
            a.iter().chain(b.iter()).any(|ev| post_malformed(ev) || ev["out"] == "panic")
        };
        if bad {
            nsusp += 1;
            out.push(Episode { n, tys: "both", ops });
        } else if nsample < 13 && nsample <= n {
            nsample += 1;
            out.push(Episode { n, tys: "both", ops });
        }
    }
    HuntResult { episodes: out, screened, suspicious: nsusp }
}

pub fn hunt(prop: &str, seed: u64, budget_ms: u64) -> HuntResult {
    if prop == "C02" || prop == "C10" {
        return hunt_histories(prop, seed, budget_ms);
    }
    C17_MODE.with(|c| c.set(prop == "C17"));
    let mut r = rng(seed, 7777);
    let mut pool = Pool { tables: HashMap::new() };
    let t0 = Instant::now();
    let mut out: Vec<Episode> = Vec::new();
    let mut screened = 0usize;
    let mut nsusp = 0usize;
    let mut sampled: HashSet<(String, usize)> = HashSet::new();
    let mut sampled_n: HashSet<(String, usize)> = HashSet::new();
    let mut nsample = 0usize;
    while t0.elapsed() < Duration::from_millis(budget_ms) && nsusp < 40 {
        let (n, ops) = candidate(prop, &mut r, &mut pool);
        screened += 1;
        let mut bad = judge::<Lut>(&ops);
        if !bad && n <= 12 {
            bad = crate::with_static!(n, L, judge::<L>(&ops));
        }
        let lastop = ops.last().unwrap();
        let opname = format!(
            "{}/{}/{}/{}",
            lastop["op"].as_str().unwrap(),
            lastop["g"].as_str().unwrap_or(""),
            lastop["f"].as_str().unwrap_or(""),
            lastop["kind"].as_str().unwrap_or("")
        );
        if bad {
            nsusp += 1;
            out.push(Episode { n, tys: if n <= 12 { "both" } else { "lut" }, ops });
        } else if nsample < 80 && (sampled.insert((opname.clone(), n % 4)) || sampled_n.insert((lastop["op"].as_str().unwrap().to_string(), n))) {
            // a stratified sample of the unsuspicious ones: per (operation and form, size class) and per (operation, size)
            nsample += 1;
            out.push(Episode { n, tys: if n <= 12 { "both" } else { "lut" }, ops });
        }
    }
    HuntResult { episodes: out, screened, suspicious: nsusp }
}
