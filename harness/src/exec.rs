//! Executes script operations on the real types and records one event per call.
//!
//! An event is the script line itself (so a trace is also a script and can be replayed)
//! plus `ty`, `out` ("ok" | "panic" | "err"), `post` (the tables of every slot the call
//! touched, read back through `blocks()` / `value()` after the call returned) and `r`
//! (the returned observable).  Panics of the code under test are data, not errors.

use crate::tab::Tab;
use serde_json::{json, Map, Value};
use std::panic::{catch_unwind, AssertUnwindSafe};

pub const BIG: u64 = 1 << 30;

pub fn silence_panics() {
    std::panic::set_hook(Box::new(|info| {
        let msg = if let Some(s) = info.payload().downcast_ref::<&str>() {
            s.to_string()
        } else if let Some(s) = info.payload().downcast_ref::<String>() {
            s.clone()
        } else {
            String::new()
        };
        if msg.contains("HARNESS") {
            eprintln!("harness error: {} at {:?}", msg, info.location());
            std::process::exit(2);
        }
    }));
}

/// usize argument: exact decimal string under `<name>_s` wins over the (clipped) number under `<name>`
pub fn arg_usize(op: &Value, name: &str) -> usize {
    if let Some(s) = op.get(format!("{}_s", name)).and_then(|v| v.as_str()) {
        return s.parse::<usize>().expect("HARNESS: bad usize string");
    }
    op.get(name)
        .and_then(|v| v.as_u64())
        .unwrap_or_else(|| panic!("HARNESS: missing arg {} in {}", name, op)) as usize
}

pub fn arg_str<'a>(op: &'a Value, name: &str) -> &'a str {
    op.get(name)
        .and_then(|v| v.as_str())
        .unwrap_or_else(|| panic!("HARNESS: missing arg {} in {}", name, op))
}

pub fn arg_list(op: &Value, name: &str) -> Vec<usize> {
    op.get(name)
        .and_then(|v| v.as_array())
        .unwrap_or_else(|| panic!("HARNESS: missing list {} in {}", name, op))
        .iter()
        .map(|x| x.as_u64().expect("HARNESS: list item") as usize)
        .collect()
}

/// Put a usize into a script line: clipped number for TLC (32-bit ints) + exact string for replay
pub fn put_usize(m: &mut Map<String, Value>, name: &str, v: usize) {
    m.insert(name.to_string(), json!(std::cmp::min(v as u64, BIG)));
    if v as u64 >= BIG {
        m.insert(format!("{}_s", name), json!(v.to_string()));
    }
}

pub fn bits_of(x: u64) -> Vec<usize> {
    (0..64).filter(|b| (x >> b) & 1 == 1).collect()
}

/// Pack an on-set into well-formed 64-bit blocks for `n` variables (harness-side, trusted)
pub fn pack(n: usize, on: &[usize]) -> Vec<u64> {
    let nb = if n <= 6 { 1 } else { 1usize << (n - 6) };
    let mut b = vec![0u64; nb];
    for &m in on {
        assert!(m < (1usize << n), "HARNESS: on-set element out of range");
        b[m >> 6] |= 1u64 << (m & 63);
    }
    b
}

/// Projection of a table: number of variables, number of blocks, every set bit of the block
/// view (global index 64*w + b) and, only if it differs, the on-set as read through `value()`
pub fn enc<T: Tab>(t: &T) -> Value {
    let n = t.nv();
    let b = t.blk();
    let mut on = Vec::new();
    for (w, x) in b.iter().enumerate() {
        for bit in 0..64 {
            if (x >> bit) & 1 == 1 {
                on.push(w * 64 + bit);
            }
        }
    }
    let mut m = Map::new();
    m.insert("n".into(), json!(n));
    m.insert("nb".into(), json!(b.len()));
    if n <= 16 {
        let dom = 1usize << n;
        let val = catch_unwind(AssertUnwindSafe(|| {
            (0..dom).filter(|&a| t.val(a, "value")).collect::<Vec<usize>>()
        }));
        match val {
            Ok(v) => {
                let in_dom: Vec<usize> = on.iter().cloned().filter(|&a| a < dom).collect();
                if v != in_dom {
                    m.insert("val".into(), json!(v));
                }
            }
            Err(_) => {
                m.insert("valpanic".into(), json!(true));
            }
        }
    }
    m.insert("on".into(), json!(on));
    Value::Object(m)
}

pub struct State<T: Tab> {
    pub slots: Vec<Option<T>>,
    pub iter: Option<Box<dyn Iterator<Item = T>>>,
}

impl<T: Tab + 'static> State<T> {
    pub fn new() -> Self {
        State {
            slots: (0..8).map(|_| None).collect(),
            iter: None,
        }
    }
    fn get(&self, s: usize) -> &T {
        self.slots[s]
            .as_ref()
            .unwrap_or_else(|| panic!("EMPTYSLOT {}", s))
    }
    /// Tables of the touched slots after the call.  A slot whose block view is bit-for-bit what
    /// it was before the call is logged as `same` (the specification then compares its own
    /// expectation with the value it already holds for that slot).
    fn post(&self, ss: &[usize], before: &[Option<T>]) -> Value {
        let mut seen = Vec::new();
        let mut v = Vec::new();
        for &s in ss {
            if seen.contains(&s) {
                continue;
            }
            seen.push(s);
            if let Some(t) = self.slots[s].as_ref() {
                let same = match before[s].as_ref() {
                    Some(b) => b.nv() == t.nv() && b.blk() == t.blk(),
                    None => false,
                };
                if same {
                    v.push(json!({"s": s, "same": true}));
                } else {
                    v.push(json!({"s": s, "t": enc(t)}));
                }
            }
        }
        Value::Array(v)
    }

    /// Execute one script line; returns the event
    pub fn exec(&mut self, op: &Value) -> Value {
        let mut ev = op.as_object().expect("HARNESS: op not an object").clone();
        // strip results of a previous run (replay of a recorded trace)
        for k in ["ty", "out", "post", "r", "walk", "walk_ref", "le_in", "cls"] {
            ev.remove(k);
        }
        let name = arg_str(op, "op").to_string();
        ev.insert("ty".into(), json!(T::TY));
        if name == "reset" {
            *self = State::new();
            ev.insert("out".into(), json!("ok"));
            return Value::Object(ev);
        }
        // snapshot for restoring after a panic in the middle of an in-place operation
        let snapshot: Vec<Option<T>> = self.slots.clone();
        let res = catch_unwind(AssertUnwindSafe(|| self.exec_inner(&name, op)));
        match res {
            Ok((out, touched, r, extra)) => {
                ev.insert("out".into(), json!(out));
                ev.insert("post".into(), self.post(&touched, &snapshot));
                if let Some(r) = r {
                    ev.insert("r".into(), r);
                }
                for (k, v) in extra {
                    ev.insert(k, v);
                }
            }
            Err(payload) => {
                self.slots = snapshot;
                let _ = volute::verif::take_walk_log();
                let msg = if let Some(s) = payload.downcast_ref::<&str>() {
                    s.to_string()
                } else if let Some(s) = payload.downcast_ref::<String>() {
                    s.clone()
                } else {
                    String::new()
                };
                // an operand slot is empty because an earlier call of this episode failed: the
                // rest of the episode is not meaningful (the specification skips it)
                let out = if msg.starts_with("EMPTYSLOT") { "skip" } else { "panic" };
                ev.insert("out".into(), json!(out));
                ev.insert("post".into(), json!([]));
            }
        }
        Value::Object(ev)
    }

    #[allow(clippy::type_complexity)]
    fn exec_inner(
        &mut self,
        name: &str,
        op: &Value,
    ) -> (&'static str, Vec<usize>, Option<Value>, Vec<(String, Value)>) {
        let ok = |touched: Vec<usize>, r: Option<Value>| ("ok", touched, r, Vec::new());
        match name {
            "load" => {
                let d = arg_usize(op, "d");
                let n = arg_usize(op, "n");
                let on = arg_list(op, "on");
                let mut b = pack(n, &on);
                if let Some(k) = op.get("nbk").and_then(|v| v.as_u64()) {
                    b.resize(k as usize, 0);
                }
                self.slots[d] = Some(T::c_from_blocks(n, &b));
                ok(vec![d], None)
            }
            "zero" | "one" | "parity" | "majority" | "random" => {
                let d = arg_usize(op, "d");
                let n = arg_usize(op, "n");
                let t = match name {
                    "zero" => T::c_zero(n),
                    "one" => T::c_one(n),
                    "parity" => T::c_parity(n),
                    "majority" => T::c_majority(n),
                    _ => T::c_random(n),
                };
                self.slots[d] = Some(t);
                ok(vec![d], None)
            }
            "default" => {
                let d = arg_usize(op, "d");
                self.slots[d] = Some(T::c_default());
                ok(vec![d], None)
            }
            "nth_var" => {
                let d = arg_usize(op, "d");
                self.slots[d] = Some(T::c_nth_var(arg_usize(op, "n"), arg_usize(op, "i")));
                ok(vec![d], None)
            }
            "threshold" | "equals" => {
                let d = arg_usize(op, "d");
                let n = arg_usize(op, "n");
                let k = arg_usize(op, "k");
                self.slots[d] = Some(if name == "threshold" {
                    T::c_threshold(n, k)
                } else {
                    T::c_equals(n, k)
                });
                ok(vec![d], None)
            }
            "symmetric" => {
                let d = arg_usize(op, "d");
                let n = arg_usize(op, "n");
                let mut c: u64 = 0;
                for b in arg_list(op, "cb") {
                    c |= 1u64 << b;
                }
                self.slots[d] = Some(T::c_symmetric(n, c as usize));
                ok(vec![d], None)
            }
            "from_hex" => {
                let d = arg_usize(op, "d");
                let n = arg_usize(op, "n");
                let bytes: Vec<u8> = arg_list(op, "s").iter().map(|&b| b as u8).collect();
                let s = String::from_utf8(bytes).expect("HARNESS: script string not UTF-8");
                match T::c_from_hex(n, &s) {
                    Ok(t) => {
                        self.slots[d] = Some(t);
                        ok(vec![d], None)
                    }
                    Err(()) => ("err", vec![], None, Vec::new()),
                }
            }
            "logic" => {
                let a = arg_usize(op, "a");
                let b = arg_usize(op, "b");
                let d = arg_usize(op, "d");
                let g = arg_str(op, "g");
                let f = arg_str(op, "f");
                if a == b && g != "not" && (f == "named" || f == "ref_ref") {
                    // the two operands are one and the same object
                    let r = T::logic_self(g, f, self.get(a));
                    self.slots[d] = Some(r);
                    return ok(vec![a, d], None);
                }
                let bv = self.get(b).clone();
                let mut av = self.get(a).clone();
                let r = T::logic(g, f, &mut av, &bv);
                // `bv` was only ever lent: write both back so that a callee that modified a
                // borrowed operand is observed
                match r {
                    Some(x) => {
                        self.slots[a] = Some(av);
                        if a != b {
                            self.slots[b] = Some(bv);
                        }
                        self.slots[d] = Some(x);
                    }
                    None => {
                        if a != b {
                            self.slots[b] = Some(bv);
                        }
                        self.slots[a] = Some(av.clone());
                        self.slots[d] = Some(av);
                    }
                }
                ok(vec![a, b, d], None)
            }
            "flip" | "swap" | "swapadj" => {
                let a = arg_usize(op, "a");
                let d = arg_usize(op, "d");
                let f = arg_str(op, "f");
                let i = arg_usize(op, "i");
                let mut av = self.get(a).clone();
                let r = match name {
                    "flip" => av.t_flip(i, f),
                    "swap" => av.t_swap(i, arg_usize(op, "j"), f),
                    _ => av.t_swapadj(i, f),
                };
                match r {
                    Some(x) => {
                        self.slots[a] = Some(av);
                        self.slots[d] = Some(x);
                    }
                    None => {
                        self.slots[a] = Some(av.clone());
                        self.slots[d] = Some(av);
                    }
                }
                ok(vec![a, d], None)
            }
            "cofactors" => {
                let a = arg_usize(op, "a");
                let d0 = arg_usize(op, "d0");
                let d1 = arg_usize(op, "d1");
                let (c0, c1) = self.get(a).t_cofactors(arg_usize(op, "i"));
                self.slots[d0] = Some(c0);
                self.slots[d1] = Some(c1);
                ok(vec![a, d0, d1], None)
            }
            "fromcof" => {
                let a = arg_usize(op, "a");
                let b = arg_usize(op, "b");
                let d = arg_usize(op, "d");
                let r = T::c_from_cofactors(self.get(a), self.get(b), arg_usize(op, "i"));
                self.slots[d] = Some(r);
                ok(vec![a, b, d], None)
            }
            "setbit" => {
                let a = arg_usize(op, "a");
                let mut av = self.get(a).clone();
                av.setbit(arg_usize(op, "m"), arg_str(op, "f"));
                self.slots[a] = Some(av);
                ok(vec![a], None)
            }
            "value" => {
                let a = arg_usize(op, "a");
                let r = self.get(a).val(arg_usize(op, "m"), arg_str(op, "f"));
                ok(vec![a], Some(json!(r)))
            }
            "rel" => {
                let a = arg_usize(op, "a");
                let b = arg_usize(op, "b");
                let r = self.get(a).rel(self.get(b), arg_str(op, "f"));
                ok(vec![a, b], Some(r))
            }
            "info" => {
                let a = arg_usize(op, "a");
                let t = self.get(a);
                let r = json!({"nv": t.nv(), "nbits": t.nbits(), "nblocks": t.nblocks()});
                ok(vec![a], Some(r))
            }
            "decomp" => {
                let a = arg_usize(op, "a");
                let (r, cls) = self.get(a).decomp(arg_usize(op, "i"));
                (
                    "ok",
                    vec![a],
                    Some(json!(r)),
                    vec![("cls".to_string(), json!({"trivial": cls[0], "andt": cls[1], "xort": cls[2], "gate": cls[3]}))],
                )
            }
            "unate" => {
                let a = arg_usize(op, "a");
                let r = self.get(a).unate(arg_usize(op, "i"), arg_str(op, "f") == "pos");
                ok(vec![a], Some(json!(r)))
            }
            "text" => {
                let a = arg_usize(op, "a");
                let s = self.get(a).text(arg_str(op, "f"));
                ok(vec![a], Some(json!(s.as_bytes())))
            }
            "text_fail" => {
                // a formatting trait writing into a sink that gives up after `limit` bytes
                let a = arg_usize(op, "a");
                let res_ok = self.get(a).text_fail(arg_str(op, "f"), arg_usize(op, "limit"));
                ok(vec![a], Some(json!(res_ok)))
            }
            "bdd" => {
                let xs = arg_list(op, "xs");
                let list: Vec<T> = xs.iter().map(|&s| self.get(s).clone()).collect();
                let r = T::bdd(&list);
                ok(xs, Some(json!(r)))
            }
            "canon" => {
                let a = arg_usize(op, "a");
                let d = arg_usize(op, "d");
                let _ = volute::verif::take_walk_log();
                let (r, perm, mask) = self.get(a).canon(arg_str(op, "kind"));
                let walk: Vec<Value> = volute::verif::take_walk_log()
                    .iter()
                    .map(|w| json!({"kind": w.kind, "n": w.num_vars, "swaps": w.swaps, "flips": w.flips}))
                    .collect();
                // the library's own ordering between the representative and the input
                let le_in = r <= *self.get(a);
                self.slots[d] = Some(r);
                (
                    "ok",
                    vec![a, d],
                    Some(json!({"perm": perm, "mask": bits_of(mask as u64)})),
                    vec![("walk".to_string(), Value::Array(walk)), ("le_in".to_string(), json!(le_in))],
                )
            }
            "canon_inv" => {
                // the representative is an invariant of the orbit: canonize f and a variant of f obtained by the
                // transformation (tperm, tmask); the variant is built HERE, value by value (the specification
                // recomputes it), not by the library's own swap / flip
                let a = arg_usize(op, "a");
                let kind = arg_str(op, "kind");
                let perm = arg_list(op, "tperm");
                let mask = arg_list(op, "tmask");
                let f = self.get(a);
                let n = f.nv();
                let on: Vec<usize> = (0..(1usize << n))
                    .filter(|&y| {
                        let mut x = 0usize;
                        for i in 0..n {
                            if ((y >> i) & 1 == 1) != mask.contains(&i) {
                                x |= 1 << perm[i];
                            }
                        }
                        f.val(x, "value") != mask.contains(&n)
                    })
                    .collect();
                let g = T::c_from_blocks(n, &pack(n, &on));
                let (r1, _, _) = f.canon(kind);
                let (r2, _, _) = g.canon(kind);
                let _ = volute::verif::take_walk_log();
                let r = json!({"g": enc(&g), "r1": enc(&r1), "r2": enc(&r2)});
                ok(vec![a], Some(r))
            }
            "iter_start" => {
                let n = arg_usize(op, "n");
                let v: Box<dyn Iterator<Item = T>> = T::iter(n);
                self.iter = Some(v);
                ok(vec![], None)
            }
            "iter_next" => {
                let d = arg_usize(op, "d");
                let it = self.iter.as_mut().expect("HARNESS: no iterator");
                match it.next() {
                    Some(t) => {
                        self.slots[d] = Some(t);
                        ok(vec![d], Some(json!("some")))
                    }
                    None => ok(vec![], Some(json!("none"))),
                }
            }
            "iter_count" => {
                // a COMPLETE run of the public iterator: how many items, and the last one
                let n = arg_usize(op, "n");
                let d = arg_usize(op, "d");
                let mut count: u64 = 0;
                let mut last: Option<T> = None;
                for t in T::iter(n) {
                    count += 1;
                    last = Some(t);
                    if count > (1u64 << 33) {
                        break;
                    }
                }
                let has = last.is_some();
                if let Some(t) = last {
                    self.slots[d] = Some(t);
                }
                ok(if has { vec![d] } else { vec![] }, Some(json!({"count": bits_of(count)})))
            }
            "iter_prog" => {
                let r = T::iter_prog(arg_usize(op, "n"), &arg_list(op, "ks"), arg_str(op, "tail"));
                ok(vec![], Some(r))
            }
            "vnext" => {
                let a = arg_usize(op, "a");
                let mut av = self.get(a).clone();
                let r = av.vnext();
                self.slots[a] = Some(av);
                ok(vec![a], Some(json!(r)))
            }
            "reload" => {
                // rebuild the same function from what `value()` says, through harness-packed blocks
                let a = arg_usize(op, "a");
                let d = arg_usize(op, "d");
                let t = self.get(a);
                let n = t.nv();
                let on: Vec<usize> = (0..(1usize << n)).filter(|&m| t.val(m, "value")).collect();
                self.slots[d] = Some(T::c_from_blocks(n, &pack(n, &on)));
                ok(vec![a, d], None)
            }
            "conv_rt" | "conv_try" => {
                let a = arg_usize(op, "a");
                let d = arg_usize(op, "d");
                let r = if name == "conv_rt" {
                    self.get(a).conv_rt()
                } else {
                    self.get(a).conv_try(arg_usize(op, "n"))
                };
                match r {
                    Ok(t) => {
                        self.slots[d] = Some(t);
                        ok(vec![a, d], None)
                    }
                    Err(()) => ("err", vec![a], None, Vec::new()),
                }
            }
            "conv_int" => {
                let w = arg_usize(op, "w");
                let mut v: u64 = 0;
                for b in arg_list(op, "vb") {
                    v |= 1u64 << b;
                }
                let (t, back) = match w {
                    8 => {
                        let l = volute::Lut3::from(v as u8);
                        (enc(&l), u8::from(l) as u64)
                    }
                    16 => {
                        let l = volute::Lut4::from(v as u16);
                        (enc(&l), u16::from(l) as u64)
                    }
                    32 => {
                        let l = volute::Lut5::from(v as u32);
                        (enc(&l), u32::from(l) as u64)
                    }
                    64 => {
                        let l = volute::Lut6::from(v);
                        (enc(&l), u64::from(l))
                    }
                    _ => panic!("HARNESS: bad width"),
                };
                ok(vec![], Some(json!({"t": t, "back": bits_of(back)})))
            }
            "consts" => {
                let c = volute::verif::constants();
                let bl = |v: &Vec<u64>| -> Vec<Vec<usize>> { v.iter().map(|x| bits_of(*x)).collect() };
                let r = json!({
                    "var_mask": bl(&c.var_mask),
                    "num_vars_mask": bl(&c.num_vars_mask),
                    "count_masks": bl(&c.count_masks),
                    "swap_input_masks": c.swap_input_masks.iter().map(bl).collect::<Vec<_>>(),
                });
                ok(vec![], Some(r))
            }
            "copy" => {
                let a = arg_usize(op, "a");
                let d = arg_usize(op, "d");
                self.slots[d] = Some(self.get(a).clone());
                ok(vec![a, d], None)
            }
            "clone_from" => {
                // Clone::clone_from into an EXISTING value (possibly of another size for Lut)
                let a = arg_usize(op, "a");
                let d = arg_usize(op, "d");
                let src = self.get(a).clone();
                let mut dst = self.get(d).clone();
                dst.clone_from(&src);
                self.slots[d] = Some(dst);
                ok(vec![a, d], None)
            }
            _ => panic!("HARNESS: unknown op {}", name),
        }
    }
}
