//! Table families shared by the generators.

use rand::rngs::StdRng;
use rand::{Rng, SeedableRng};

pub fn rng(seed: u64, salt: u64) -> StdRng {
    StdRng::seed_from_u64(seed.wrapping_mul(0x9e37_79b9_7f4a_7c15).wrapping_add(salt))
}

pub fn dom(n: usize) -> usize {
    1usize << n
}

pub fn on_from_fn(n: usize, f: impl Fn(usize) -> bool) -> Vec<usize> {
    (0..dom(n)).filter(|&m| f(m)).collect()
}

pub fn random_on(n: usize, r: &mut StdRng) -> Vec<usize> {
    on_from_fn(n, |_| true).into_iter().filter(|_| r.gen::<bool>()).collect()
}

pub fn sparse_on(n: usize, r: &mut StdRng, k: usize) -> Vec<usize> {
    let mut v: Vec<usize> = (0..k).map(|_| r.gen_range(0..dom(n))).collect();
    v.sort();
    v.dedup();
    v
}

/// Structured tables: constants, projections, single-bit and all-but-one-bit tables, tables
/// equal in every 64-bit word but one, word-periodic tables, tables whose low words are all
/// ones, dense random words.
pub fn structured(n: usize, r: &mut StdRng) -> Vec<Vec<usize>> {
    let d = dom(n);
    let mut out: Vec<Vec<usize>> = Vec::new();
    out.push(vec![]);
    out.push((0..d).collect());
    for i in 0..n {
        out.push(on_from_fn(n, |m| (m >> i) & 1 == 1));
    }
    // single bit / all but one bit, at chosen positions
    let mut pos = vec![0, d - 1, d / 2, d / 3];
    if d > 64 {
        pos.extend([63, 64, d - 64, d - 65]);
    }
    pos.push(r.gen_range(0..d));
    pos.sort();
    pos.dedup();
    for &p in &pos {
        out.push(vec![p]);
        out.push((0..d).filter(|&m| m != p).collect());
    }
    // invariant under rotating the variables (x0 -> x1 -> .. -> x0) without being totally symmetric: ring sums / ring
    // ORs of a local pattern
    if n >= 4 {
        let pat = |m: usize, i: usize| -> bool { (m >> i) & 1 == 1 && (m >> ((i + 1) % n)) & 1 == 1 && (m >> ((i + 3) % n)) & 1 == 0 };
        out.push(on_from_fn(n, |m| (0..n).filter(|&i| pat(m, i)).count() % 2 == 1));
        out.push(on_from_fn(n, |m| (0..n).any(|i| pat(m, i))));
    }
    // word-periodic: the same random 64-bit word in every block
    let w: u64 = r.gen();
    out.push(on_from_fn(n, |m| (w >> (m & 63)) & 1 == 1));
    if d > 64 {
        // tables whose blocks cancel under an arithmetic or bitwise 'checksum' although the table is not constant:
        // the top bit in every block (x0 & .. & x5; the blocks add up to 0 modulo 2^64 for an even block count),
        // blocks alternating between a word and its two's complement / its complement, a single word repeated
        out.push(on_from_fn(n, |m| m & 63 == 63));
        out.push(on_from_fn(n, |m| m & 63 == 62 + ((m >> 6) & 1)));
        let w3: u64 = r.gen::<u64>() | 1;
        let neg = w3.wrapping_neg();
        out.push(on_from_fn(n, |m| ((if (m >> 6) & 1 == 0 { w3 } else { neg }) >> (m & 63)) & 1 == 1));
        out.push(on_from_fn(n, |m| ((if (m >> 6) & 1 == 0 { w3 } else { !w3 }) >> (m & 63)) & 1 == 1));
    }
    if d > 64 {
        // equal in every word but one
        let k = r.gen_range(0..d / 64);
        let w2: u64 = r.gen();
        out.push(on_from_fn(n, |m| {
            if m / 64 == k {
                (w2 >> (m & 63)) & 1 == 1
            } else {
                (w >> (m & 63)) & 1 == 1
            }
        }));
        // low words all ones, rest random
        let k = r.gen_range(1..=d / 64 - 1).max(1);
        let rest = random_on(n, r);
        out.push(on_from_fn(n, |m| m / 64 < k || rest.binary_search(&m).is_ok()));
    }
    // --- families added after the seeded-change rounds (each was the trigger of some change) ---
    if n >= 1 {
        // a function of fewer variables padded with dummy variables
        let m = r.gen_range(0..n);
        let g = random_on(m, r);
        out.push(on_from_fn(n, |x| g.binary_search(&(x & (dom(m) - 1))).is_ok()));
        // all the action in one half of the table: x_top & g, !x_top & g
        let g = random_on(n - 1, r);
        out.push(on_from_fn(n, |x| (x >> (n - 1)) & 1 == 1 && g.binary_search(&(x & (dom(n - 1) - 1))).is_ok()));
        out.push(on_from_fn(n, |x| (x >> (n - 1)) & 1 == 0 && g.binary_search(&(x & (dom(n - 1) - 1))).is_ok()));
        // totally symmetric up to input polarity
        let c: u64 = r.gen();
        let pol: usize = r.gen_range(0..d);
        out.push(on_from_fn(n, |x| (c >> ((x ^ pol).count_ones())) & 1 == 1));
    }
    if n >= 2 {
        // a literal pair embedded in n variables; a three-variable mux on spread-out variables
        let i = r.gen_range(0..n);
        let j = (i + 1 + r.gen_range(0..n - 1)) % n;
        out.push(on_from_fn(n, |x| (x >> i) & 1 == 1 && (x >> j) & 1 == 0));
        let k = (j + 1) % n;
        out.push(on_from_fn(n, |x| if (x >> (n - 1)) & 1 == 1 { (x >> i) & 1 == 1 } else { (x >> k) & 1 == 1 }));
    }
    if d > 128 {
        // non-zero only in some 64-bit blocks: last, first, one in the middle, upper half, all but the first
        let nbk = d / 64;
        let rnd = random_on(n, r);
        let keep = |lo: usize, hi: usize| -> Vec<usize> { rnd.iter().cloned().filter(|&m| m / 64 >= lo && m / 64 < hi).collect() };
        out.push(keep(nbk - 1, nbk));
        out.push(keep(0, 1));
        out.push(keep(nbk / 2, nbk / 2 + 1));
        out.push(keep(nbk / 2, nbk));
        out.push(keep(1, nbk));
        // the complement of a block-sparse table (all-ones blocks)
        let ks = keep(0, 1);
        out.push(on_from_fn(n, |x| ks.binary_search(&x).is_err()));
        // x_a & (x_b ^ x_c) with a, b at or above the word boundary
        let a = r.gen_range(6..n);
        let b = 6 + (a - 6 + 1) % (n - 6).max(1);
        let c = r.gen_range(0..6);
        out.push(on_from_fn(n, |x| (x >> a) & 1 == 1 && (((x >> b) & 1) ^ ((x >> c) & 1)) == 1));
    }
    if n >= 2 {
        // a function of the TOP variables only (the low ones are dummies): unions of aligned index intervals
        let m = r.gen_range(1..n);
        let g = random_on(m, r);
        out.push(on_from_fn(n, |x| g.binary_search(&(x >> (n - m))).is_ok()));
    }
    // thermometer tables (the k lowest assignments true), and a thermometer low block under dense /
    // random upper blocks: the numerically smallest tables with a given number of minterms
    {
        let k = r.gen_range(0..=d);
        out.push((0..k).collect());
        if d > 64 {
            let k = r.gen_range(1..64);
            let hi = random_on(n, r);
            out.push(on_from_fn(n, |m| if m < 64 { m < k } else { hi.binary_search(&m).is_ok() }));
            let k2 = r.gen_range(32..64);
            let holes = sparse_on(n, r, 2 * k2);
            out.push(on_from_fn(n, |m| if m < 64 { m < k2 } else { holes.binary_search(&m).is_err() }));
        }
    }
    out.push(random_on(n, r));
    out.push(random_on(n, r));
    out.push(sparse_on(n, r, 3));
    out
}
