//! Table families shared by the generators.

use rand::rngs::StdRng;
use rand::{Rng, SeedableRng};

pub fn rng(seed: u64, salt: u64) -> StdRng {
    StdRng::seed_from_u64(seed.wrapping_mul(0x9e37_79b9_7f4a_7c15).wrapping_add(salt))
}

pub fn dom(n: usize) -> usize {
    1usize << n
}

pub fn on_from_fn(n: usize, f: impl Fn(usize) -> bool) -> Vec<usize> {
    (0..dom(n)).filter(|&m| f(m)).collect()
}

pub fn random_on(n: usize, r: &mut StdRng) -> Vec<usize> {
    on_from_fn(n, |_| true).into_iter().filter(|_| r.gen::<bool>()).collect()
}

pub fn sparse_on(n: usize, r: &mut StdRng, k: usize) -> Vec<usize> {
    let mut v: Vec<usize> = (0..k).map(|_| r.gen_range(0..dom(n))).collect();
    v.sort();
    v.dedup();
    v
}

/// Structured tables: constants, projections, single-bit and all-but-one-bit tables, tables
/// equal in every 64-bit word but one, word-periodic tables, tables whose low words are all
/// ones, dense random words.
pub fn structured(n: usize, r: &mut StdRng) -> Vec<Vec<usize>> {
    let d = dom(n);
    let mut out: Vec<Vec<usize>> = Vec::new();
    out.push(vec![]);
    out.push((0..d).collect());
    for i in 0..n {
        out.push(on_from_fn(n, |m| (m >> i) & 1 == 1));
    }
    // single bit / all but one bit, at chosen positions
    let mut pos = vec![0, d - 1, d / 2, d / 3];
    if d > 64 {
        pos.extend([63, 64, d - 64, d - 65]);
    }
    pos.push(r.gen_range(0..d));
    pos.sort();
    pos.dedup();
    for &p in &pos {
        out.push(vec![p]);
        out.push((0..d).filter(|&m| m != p).collect());
    }
    // word-periodic: the same random 64-bit word in every block
    let w: u64 = r.gen();
    out.push(on_from_fn(n, |m| (w >> (m & 63)) & 1 == 1));
    if d > 64 {
        // equal in every word but one
        let k = r.gen_range(0..d / 64);
        let w2: u64 = r.gen();
        out.push(on_from_fn(n, |m| {
            if m / 64 == k {
                (w2 >> (m & 63)) & 1 == 1
            } else {
                (w >> (m & 63)) & 1 == 1
            }
        }));
        // low words all ones, rest random
        let k = r.gen_range(1..=d / 64 - 1).max(1);
        let rest = random_on(n, r);
        out.push(on_from_fn(n, |m| m / 64 < k || rest.binary_search(&m).is_ok()));
    }
    out.push(random_on(n, r));
    out.push(random_on(n, r));
    out.push(sparse_on(n, r, 3));
    out
}
