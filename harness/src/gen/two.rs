//! Generators for the two-level forms (C12 - C16).

use super::common::*;
use super::Episode;
use rand::rngs::StdRng;
use rand::Rng;
use serde_json::{json, Value};

const FORMS: [&str; 4] = ["val_val", "ref_val", "ref_ref", "val_ref"];

fn ep(n: usize, ops: Vec<Value>) -> Episode {
    Episode { n, tys: "two", ops }
}

fn bits(m: usize) -> Vec<usize> {
    (0..usize::BITS as usize).filter(|b| (m >> b) & 1 == 1).collect()
}

/// all 3^n consistent cubes over n variables as (pos mask, neg mask)
fn all_cubes(n: usize) -> Vec<(usize, usize)> {
    let mut v = Vec::new();
    for p in 0..(1usize << n) {
        for q in 0..(1usize << n) {
            if p & q == 0 {
                v.push((p, q));
            }
        }
    }
    v
}

fn mk_cube(d: usize, p: usize, q: usize) -> Value {
    json!({"op": "t_mk", "k": "cube", "c": "from_vars", "d": d, "p": bits(p), "q": bits(q)})
}

fn cube_json(p: usize, q: usize) -> Value {
    json!({"p": bits(p), "q": bits(q)})
}

fn random_cube(r: &mut StdRng, nvars: usize, maxlits: usize) -> (usize, usize) {
    let mut p = 0usize;
    let mut q = 0usize;
    for _ in 0..r.gen_range(0..=maxlits) {
        let v = r.gen_range(0..nvars);
        if r.gen() {
            p |= 1 << v;
            q &= !(1 << v);
        } else {
            q |= 1 << v;
            p &= !(1 << v);
        }
    }
    (p, q)
}

/// C12: cube algebra
pub fn gen_c12(thorough: bool, seed: u64) -> Vec<Episode> {
    let mut eps = Vec::new();
    let mut r = rng(seed, 12);
    let max_exh = if thorough { 5 } else { 3 };
    // exhaustive pairs, every assignment
    for n in 0..=max_exh {
        let cubes = all_cubes(n);
        eps.push(ep(n, vec![json!({"op": "t_all", "k": "cube", "n": n})]));
        for (ia, &(pa, qa)) in cubes.iter().enumerate() {
            let mut ops = vec![mk_cube(0, pa, qa), json!({"op": "t_info", "a": 0})];
            for m in 0..(1usize << n) {
                if n <= 3 || (m + ia) % 5 == 0 {
                    ops.push(json!({"op": "t_val", "a": 0, "mb": bits(m)}));
                }
            }
            for (ib, &(pb, qb)) in cubes.iter().enumerate() {
                if n >= 4 && (ia * 7 + ib) % (if n == 4 { 3 } else { 11 }) != 0 {
                    continue;
                }
                ops.push(mk_cube(1, pb, qb));
                ops.push(json!({"op": "t_bin", "g": "and", "f": FORMS[(ia + ib) % 4], "a": 0, "b": 1, "d": 2}));
                ops.push(json!({"op": "t_rel", "f": "implies", "a": 0, "b": 1}));
                ops.push(json!({"op": "t_rel", "f": "intersects", "a": 0, "b": 1}));
                ops.push(json!({"op": "t_rel", "f": "eq", "a": 0, "b": 1}));
                if (ia + ib) % 3 == 0 {
                    // chained conjunctions: (a & b) & c, contradictions must collapse to the one zero
                    let (pc, qc) = cubes[(ia * 5 + ib * 3) % cubes.len()];
                    ops.push(mk_cube(3, pc, qc));
                    ops.push(json!({"op": "t_bin", "g": "and", "f": "ref_ref", "a": 2, "b": 3, "d": 4}));
                    ops.push(json!({"op": "t_rel", "f": "implies", "a": 4, "b": 0}));
                    ops.push(json!({"op": "t_rel", "f": "eq", "a": 4, "b": 2}));
                    ops.push(json!({"op": "t_info", "a": 4}));
                }
                if ops.len() > 120 {
                    eps.push(ep(n, ops));
                    ops = vec![mk_cube(0, pa, qa)];
                }
            }
            eps.push(ep(n, ops));
        }
        // the canonical zero cube as an operand, against every cube (and itself, and the one cube)
        {
            let mut ops = vec![json!({"op": "t_mk", "k": "cube", "c": "zero", "d": 0}), json!({"op": "t_info", "a": 0})];
            for (ib, &(pb, qb)) in cubes.iter().enumerate() {
                ops.push(mk_cube(1, pb, qb));
                for f in ["implies", "intersects", "eq"] {
                    ops.push(json!({"op": "t_rel", "f": f, "a": 0, "b": 1}));
                    ops.push(json!({"op": "t_rel", "f": f, "a": 1, "b": 0}));
                }
                ops.push(json!({"op": "t_bin", "g": "and", "f": FORMS[ib % 4], "a": 0, "b": 1, "d": 2}));
                ops.push(json!({"op": "t_bin", "g": "and", "f": FORMS[(ib + 1) % 4], "a": 1, "b": 0, "d": 2}));
                if ops.len() > 120 {
                    eps.push(ep(n, ops));
                    ops = vec![json!({"op": "t_mk", "k": "cube", "c": "zero", "d": 0})];
                }
            }
            for f in ["implies", "intersects", "eq"] {
                ops.push(json!({"op": "t_rel", "f": f, "a": 0, "b": 0}));
            }
            ops.push(json!({"op": "t_bin", "g": "and", "f": "ref_ref", "a": 0, "b": 0, "d": 2}));
            for m in (0..(1usize << n).min(8)).chain([u32::MAX as usize, usize::MAX, 1usize << 31, (u32::MAX as usize) >> 1]) {
                ops.push(json!({"op": "t_val", "a": 0, "mb": bits(m)}));
            }
            eps.push(ep(n, ops));
        }
        // implies_lut against all functions (n <= 3; sampled at n = 4)
        if n <= 4 {
            let total: u64 = 1u64 << (1u64 << n);
            for &(pa, qa) in cubes.iter() {
                let mut ops = vec![mk_cube(0, pa, qa)];
                let step = if n <= 2 { 1 } else if n == 3 { if thorough { 1 } else { 5 } } else { 997 };
                let mut f = r.gen_range(0..step.min(total));
                while f < total {
                    let on: Vec<usize> = (0..dom(n)).filter(|&m| (f >> m) & 1 == 1).collect();
                    ops.push(json!({"op": "t_implut", "a": 0, "n": n, "on": on}));
                    f += step;
                }
                // the cube's own function and supersets of it are the interesting positives
                let own: Vec<usize> = (0..dom(n)).filter(|&m| m & pa == pa && m & qa == 0).collect();
                ops.push(json!({"op": "t_implut", "a": 0, "n": n, "on": own.clone()}));
                if !own.is_empty() {
                    let mut less = own.clone();
                    less.remove(r.gen_range(0..less.len()));
                    ops.push(json!({"op": "t_implut", "a": 0, "n": n, "on": less}));
                }
                eps.push(ep(n, ops));
            }
        }
    }
    // constructors: nth_var / nth_var_inv / minterm / from_mask, up to 32 variables
    for n in 0..=32usize {
        let mut ops = Vec::new();
        for _ in 0..(if thorough { 6 } else { 2 }) {
            let m: usize = if n == 0 { 0 } else { (r.gen::<u64>() & (if n >= 64 { !0u64 } else { (1u64 << n) - 1 })) as usize };
            ops.push(json!({"op": "t_mk", "k": "cube", "c": "minterm", "d": 0, "n": n, "mb": bits(m)}));
            ops.push(json!({"op": "t_info", "a": 0}));
            ops.push(json!({"op": "t_val", "a": 0, "mb": bits(m)}));
            if n > 0 {
                ops.push(json!({"op": "t_val", "a": 0, "mb": bits(m ^ (1 << r.gen_range(0..n)))}));
            }
        }
        // assignment bits above n are ignored by minterm
        ops.push(json!({"op": "t_mk", "k": "cube", "c": "minterm", "d": 0, "n": n, "mb": bits(u32::MAX as usize)}));
        ops.push(json!({"op": "t_mk", "k": "cube", "c": "minterm", "d": 1, "n": n, "mb": []}));
        ops.push(json!({"op": "t_rel", "f": "intersects", "a": 0, "b": 1}));
        if n < 32 {
            ops.push(json!({"op": "t_mk", "k": "cube", "c": "nth_var", "d": 2, "i": n}));
            ops.push(json!({"op": "t_mk", "k": "cube", "c": "nth_var_inv", "d": 3, "i": n}));
            ops.push(json!({"op": "t_bin", "g": "and", "f": "val_val", "a": 2, "b": 3, "d": 4}));
            ops.push(json!({"op": "t_info", "a": 4}));
            ops.push(json!({"op": "t_val", "a": 2, "mb": [n]}));
            ops.push(json!({"op": "t_val", "a": 3, "mb": [n]}));
        }
        eps.push(ep(n.min(12), ops));
    }
    for c in ["one", "zero"] {
        eps.push(ep(0, vec![json!({"op": "t_mk", "k": "cube", "c": c, "d": 0}), json!({"op": "t_info", "a": 0}),
                            json!({"op": "t_val", "a": 0, "mb": []}), json!({"op": "t_val", "a": 0, "mb": [0, 31]})]));
    }
    // random cubes over 32 variables with random 32-bit assignments; from_mask incl. contradictory masks
    let rounds = if thorough { 3000 } else { 300 };
    for k in 0..rounds {
        let (pa, qa) = random_cube(&mut r, 32, 6);
        let (pb, qb) = random_cube(&mut r, 32, 6);
        let mut ops = vec![mk_cube(0, pa, qa), mk_cube(1, pb, qb)];
        ops.push(json!({"op": "t_bin", "g": "and", "f": FORMS[k % 4], "a": 0, "b": 1, "d": 2}));
        ops.push(json!({"op": "t_rel", "f": "implies", "a": 0, "b": 1}));
        ops.push(json!({"op": "t_rel", "f": "implies", "a": 2, "b": 1}));
        ops.push(json!({"op": "t_rel", "f": "intersects", "a": 0, "b": 1}));
        ops.push(json!({"op": "t_rel", "f": "eq", "a": 2, "b": 0}));
        ops.push(json!({"op": "t_info", "a": 2}));
        for _ in 0..3 {
            let m = r.gen::<u32>() as usize;
            // bias the assignment towards satisfying a
            let m2 = (m | pa) & !qa;
            ops.push(json!({"op": "t_val", "a": 0, "mb": bits(m)}));
            ops.push(json!({"op": "t_val", "a": 2, "mb": bits(m2)}));
        }
        // extreme assignments: nothing true, all 32 variables true, all 64 bits of the word set
        for m in [0usize, u32::MAX as usize, usize::MAX, (u32::MAX as usize) ^ (1 << (k % 32)), 1usize << 31] {
            ops.push(json!({"op": "t_val", "a": if k % 2 == 0 {2} else {0}, "mb": bits(m)}));
        }
        // raw masks, possibly overlapping
        let rp = r.gen::<u32>() as usize & r.gen::<u32>() as usize;
        let rq = r.gen::<u32>() as usize & r.gen::<u32>() as usize & if k % 2 == 0 { !rp } else { !0 };
        ops.push(json!({"op": "t_mk", "k": "cube", "c": "from_mask", "d": 3, "p": bits(rp), "q": bits(rq)}));
        ops.push(json!({"op": "t_info", "a": 3}));
        // from_vars with overlapping literal lists
        ops.push(json!({"op": "t_mk", "k": "cube", "c": "from_vars", "d": 4, "p": bits(pa | 1 << (k % 32)), "q": bits(qa | 1 << (k % 32))}));
        ops.push(json!({"op": "t_rel", "f": "eq", "a": 4, "b": 3}));
        eps.push(ep(12, ops));
    }
    // literal lists as a caller may write them: unordered, with repeated entries (a repeated literal is that literal)
    {
        let mut ops = Vec::new();
        for (pl, ql) in [(vec![0usize, 0], vec![]), (vec![3, 1, 3], vec![2, 2]), (vec![31, 31], vec![30, 0, 30]), (vec![], vec![5, 5, 5]),
                         (vec![7, 6, 7, 6], vec![1]), (vec![2], vec![1, 1]), (vec![4, 4], vec![4])] {
            ops.push(json!({"op": "t_mk", "k": "cube", "c": "from_vars", "d": 0, "p": pl, "q": ql}));
            ops.push(json!({"op": "t_info", "a": 0}));
            ops.push(json!({"op": "t_val", "a": 0, "mb": pl}));
        }
        eps.push(ep(6, ops));
    }
    // the cubes at the edge of the representation: all 32 variables positive / negative / one literal short, the
    // full-width minterms of the extreme assignments
    {
        let full: usize = 0xffff_ffff;
        let mut ops = Vec::new();
        let mut k = 0;
        for (p, q) in [(full, 0usize), (0, full), (full ^ 1, 0), (full ^ (1 << 31), 0), (0, full ^ (1 << 31)), (full ^ 1, 1), (1 << 31, full ^ (1 << 31)),
                       (0x5555_5555, 0xaaaa_aaaa), (0xffff_0000, 0x0000_ffff)] {
            ops.push(json!({"op": "t_mk", "k": "cube", "c": if k % 2 == 0 { "from_mask" } else { "from_vars" }, "d": 0, "p": bits(p), "q": bits(q)}));
            ops.push(json!({"op": "t_info", "a": 0}));
            for m in [p, full, 0, p ^ 1] {
                ops.push(json!({"op": "t_val", "a": 0, "mb": bits(m)}));
            }
            ops.push(json!({"op": "t_mk", "k": "cube", "c": "minterm", "d": 1, "n": 32, "mb": bits(p)}));
            ops.push(json!({"op": "t_info", "a": 1}));
            ops.push(json!({"op": "t_rel", "f": "eq", "a": 0, "b": 1}));
            ops.push(json!({"op": "t_rel", "f": "implies", "a": 1, "b": 0}));
            ops.push(json!({"op": "t_bin", "g": "and", "f": FORMS[k % 4], "a": 0, "b": 1, "d": 2}));
            ops.push(json!({"op": "t_info", "a": 2}));
            k += 1;
        }
        eps.push(ep(6, ops));
    }
    eps
}

fn mk_ecube(d: usize, v: usize, x: bool) -> Value {
    json!({"op": "t_mk", "k": "ecube", "c": "from_vars", "d": d, "v": bits(v), "x": x})
}

fn ecube_json(v: usize, x: bool) -> Value {
    json!({"v": bits(v), "x": x})
}

/// C13: exclusive cubes and Soes
pub fn gen_c13(thorough: bool, seed: u64) -> Vec<Episode> {
    let mut eps = Vec::new();
    let mut r = rng(seed, 13);
    let max_exh = if thorough { 5 } else { 4 };
    for n in 0..=max_exh {
        eps.push(ep(n, vec![json!({"op": "t_all", "k": "ecube", "n": n})]));
        let all: Vec<(usize, bool)> = (0..(1usize << n)).flat_map(|v| [(v, false), (v, true)]).collect();
        for (ia, &(va, xa)) in all.iter().enumerate() {
            let mut ops = vec![mk_ecube(0, va, xa), json!({"op": "t_info", "a": 0}),
                               json!({"op": "t_not", "f": if ia % 2 == 0 {"ref"} else {"val"}, "a": 0, "d": 3})];
            for m in 0..(1usize << n) {
                ops.push(json!({"op": "t_val", "a": 0, "mb": bits(m)}));
            }
            for (ib, &(vb, xb)) in all.iter().enumerate() {
                if n == 5 && (ia + ib) % 3 != 0 {
                    continue;
                }
                ops.push(mk_ecube(1, vb, xb));
                ops.push(json!({"op": "t_bin", "g": "xor", "f": FORMS[(ia + ib) % 4], "a": 0, "b": 1, "d": 2}));
                ops.push(json!({"op": "t_rel", "f": "eq", "a": 0, "b": 1}));
            }
            eps.push(ep(n, ops));
        }
    }
    for c in ["one", "zero"] {
        eps.push(ep(0, vec![json!({"op": "t_mk", "k": "ecube", "c": c, "d": 0}), json!({"op": "t_info", "a": 0}),
                            json!({"op": "t_val", "a": 0, "mb": [3, 5]})]));
    }
    for i in 0..32usize {
        eps.push(ep(6, vec![json!({"op": "t_mk", "k": "ecube", "c": "nth_var", "d": 0, "i": i}),
                            json!({"op": "t_mk", "k": "ecube", "c": "nth_var_inv", "d": 1, "i": i}),
                            json!({"op": "t_info", "a": 0}), json!({"op": "t_info", "a": 1}),
                            json!({"op": "t_val", "a": 0, "mb": [i]}), json!({"op": "t_val", "a": 1, "mb": [i]}),
                            json!({"op": "t_bin", "g": "xor", "f": "val_val", "a": 0, "b": 1, "d": 2}),
                            json!({"op": "t_info", "a": 2})]));
    }
    // equality must be semantic for every one of the 32 variables: a cube against the same cube
    // with one variable toggled, against its complement, and the single literals against constants
    for i in 0..32usize {
        let base = r.gen::<u32>() as usize & r.gen::<u32>() as usize;
        let mut ops = vec![mk_ecube(0, base, i % 2 == 0), mk_ecube(1, base ^ (1 << i), i % 2 == 0), mk_ecube(2, base, i % 2 == 1),
                           json!({"op": "t_mk", "k": "ecube", "c": "nth_var", "d": 3, "i": i}),
                           json!({"op": "t_mk", "k": "ecube", "c": "nth_var_inv", "d": 4, "i": i}),
                           json!({"op": "t_mk", "k": "ecube", "c": "zero", "d": 5}),
                           json!({"op": "t_mk", "k": "ecube", "c": "one", "d": 6})];
        for (a, b) in [(0, 1), (1, 0), (0, 2), (0, 0), (3, 5), (4, 6), (3, 4), (5, 6)] {
            ops.push(json!({"op": "t_rel", "f": "eq", "a": a, "b": b}));
        }
        ops.push(json!({"op": "t_bin", "g": "xor", "f": "ref_ref", "a": 0, "b": 3, "d": 7}));
        ops.push(json!({"op": "t_rel", "f": "eq", "a": 7, "b": 1}));
        ops.push(json!({"op": "t_rel", "f": "eq", "a": 7, "b": 0}));
        eps.push(ep(12, ops));
    }
    // random exclusive cubes over 32 variables
    for k in 0..(if thorough { 2000 } else { 200 }) {
        let va = r.gen::<u32>() as usize & r.gen::<u32>() as usize;
        let vb = r.gen::<u32>() as usize & r.gen::<u32>() as usize;
        let mut ops = vec![mk_ecube(0, va, r.gen()), mk_ecube(1, vb, r.gen())];
        ops.push(json!({"op": "t_bin", "g": "xor", "f": FORMS[k % 4], "a": 0, "b": 1, "d": 2}));
        ops.push(json!({"op": "t_not", "f": "val", "a": 2, "d": 3}));
        ops.push(json!({"op": "t_info", "a": 2}));
        for _ in 0..3 {
            let m = r.gen::<u32>() as usize;
            ops.push(json!({"op": "t_val", "a": 0, "mb": bits(m)}));
            ops.push(json!({"op": "t_val", "a": 2, "mb": bits(m)}));
            ops.push(json!({"op": "t_val", "a": 3, "mb": bits(m)}));
        }
        eps.push(ep(12, ops));
    }
    // Soes: all lists of up to 2 (3) terms over n <= 3; sampled lists of up to 4 terms over n <= 4; random to n = 8
    let soes_ops = |terms: &[(usize, bool)], n: usize, r: &mut StdRng, ops: &mut Vec<Value>| {
        let cubes: Vec<Value> = terms.iter().map(|&(v, x)| ecube_json(v, x)).collect();
        ops.push(json!({"op": "t_mk", "k": "soes", "c": "from_cubes", "d": 0, "n": n, "cubes": cubes}));
        ops.push(json!({"op": "t_info", "a": 0}));
        ops.push(json!({"op": "t_tolut", "a": 0, "f": if r.gen() {"ref"} else {"val"}}));
        ops.push(json!({"op": "t_val", "a": 0, "mb": bits(r.gen_range(0..dom(n)))}));
    };
    let max_terms = if thorough { 3 } else { 2 };
    for n in 0..=3usize {
        let all: Vec<(usize, bool)> = (0..(1usize << n)).flat_map(|v| [(v, false), (v, true)]).collect();
        let mut lists: Vec<Vec<(usize, bool)>> = vec![vec![]];
        let mut cur: Vec<Vec<(usize, bool)>> = vec![vec![]];
        for _ in 0..max_terms {
            let mut nxt = Vec::new();
            for l in &cur {
                for &t in &all {
                    let mut l2 = l.clone();
                    l2.push(t);
                    nxt.push(l2);
                }
            }
            lists.extend(nxt.iter().cloned());
            cur = nxt;
        }
        let mut ops = Vec::new();
        for (k, l) in lists.iter().enumerate() {
            soes_ops(l, n, &mut r, &mut ops);
            // OR with another list
            let other = &lists[(k * 7 + 3) % lists.len()];
            let cubes: Vec<Value> = other.iter().map(|&(v, x)| ecube_json(v, x)).collect();
            ops.push(json!({"op": "t_mk", "k": "soes", "c": "from_cubes", "d": 1, "n": n, "cubes": cubes}));
            ops.push(json!({"op": "t_bin", "g": "or", "f": FORMS[k % 4], "a": 0, "b": 1, "d": 2}));
            ops.push(json!({"op": "t_info", "a": 2}));
            ops.push(json!({"op": "t_tolut", "a": 2, "f": "ref"}));
            if ops.len() > 80 {
                eps.push(ep(n, ops));
                ops = Vec::new();
            }
        }
        if !ops.is_empty() {
            eps.push(ep(n, ops));
        }
    }
    for n in [4usize, 5, 6, 7, 8] {
        for _ in 0..(if thorough { 200 } else { 25 }) {
            let k = r.gen_range(0..=4);
            let terms: Vec<(usize, bool)> = (0..k).map(|_| (r.gen_range(0..dom(n)), r.gen())).collect();
            let mut ops = Vec::new();
            soes_ops(&terms, n, &mut r, &mut ops);
            for c in ["zero", "one"] {
                ops.push(json!({"op": "t_mk", "k": "soes", "c": c, "d": 1, "n": n}));
                ops.push(json!({"op": "t_bin", "g": "or", "f": "ref_ref", "a": 0, "b": 1, "d": 2}));
                ops.push(json!({"op": "t_info", "a": 2}));
                ops.push(json!({"op": "t_bin", "g": "or", "f": "val_ref", "a": 1, "b": 0, "d": 3}));
                ops.push(json!({"op": "t_info", "a": 3}));
                ops.push(json!({"op": "t_tolut", "a": 3, "f": "val"}));
            }
            let i = r.gen_range(0..n);
            ops.push(json!({"op": "t_mk", "k": "soes", "c": "nth_var", "d": 4, "n": n, "i": i}));
            ops.push(json!({"op": "t_mk", "k": "soes", "c": "nth_var_inv", "d": 5, "n": n, "i": i}));
            ops.push(json!({"op": "t_bin", "g": "or", "f": "val_val", "a": 4, "b": 5, "d": 6}));
            ops.push(json!({"op": "t_info", "a": 6}));
            ops.push(json!({"op": "t_tolut", "a": 6, "f": "ref"}));
            eps.push(ep(n, ops));
        }
    }
    // implicants of functions (used by the optimizers)
    for n in 0..=3usize {
        let total: u64 = 1u64 << (1u64 << n);
        for v in 0..(1usize << n) {
            for x in [false, true] {
                let mut ops = vec![mk_ecube(0, v, x)];
                let mut f = 0u64;
                while f < total {
                    let on: Vec<usize> = (0..dom(n)).filter(|&m| (f >> m) & 1 == 1).collect();
                    ops.push(json!({"op": "t_implut", "a": 0, "n": n, "on": on}));
                    f += if n == 3 { 7 } else { 1 };
                }
                eps.push(ep(n, ops));
            }
        }
    }
    // variable lists as a caller may write them: unordered, with repeated entries (a repeated variable is that variable)
    {
        let mut ops = Vec::new();
        for (vl, x) in [(vec![1usize, 1], false), (vec![3, 0, 3], false), (vec![31, 31], true), (vec![5, 5, 5], true), (vec![7, 6, 7, 6], false)] {
            ops.push(json!({"op": "t_mk", "k": "ecube", "c": "from_vars", "d": 0, "v": vl, "x": x}));
            ops.push(json!({"op": "t_info", "a": 0}));
            ops.push(json!({"op": "t_val", "a": 0, "mb": vl}));
            ops.push(json!({"op": "t_val", "a": 0, "mb": [vl[0]]}));
        }
        eps.push(ep(6, ops));
    }
    eps
}

fn sop_mk(d: usize, n: usize, cubes: &[(usize, usize)], kind: &str) -> Value {
    let cs: Vec<Value> = cubes.iter().map(|&(p, q)| cube_json(p, q)).collect();
    json!({"op": "t_mk", "k": kind, "c": "from_cubes", "d": d, "n": n, "cubes": cs})
}

/// random expression over slots 0..k of depth <= 4; returns the slot holding the result
fn sop_expr(r: &mut StdRng, depth: usize, leaves: usize, next: &mut usize, ops: &mut Vec<Value>) -> usize {
    if depth == 0 || r.gen_range(0..4) == 0 {
        return r.gen_range(0..leaves);
    }
    match r.gen_range(0..3) {
        0 => {
            let a = sop_expr(r, depth - 1, leaves, next, ops);
            let d = *next;
            *next += 1;
            ops.push(json!({"op": "t_not", "f": if r.gen() {"ref"} else {"val"}, "a": a, "d": d}));
            d
        }
        g => {
            let a = sop_expr(r, depth - 1, leaves, next, ops);
            let b = sop_expr(r, depth - 1, leaves, next, ops);
            let d = *next;
            *next += 1;
            ops.push(json!({"op": "t_bin", "g": if g == 1 {"and"} else {"or"}, "f": FORMS[r.gen_range(0..4)], "a": a, "b": b, "d": d}));
            d
        }
    }
}

/// Operations on a long structured cube list (see gen_c14)
pub fn long_list_ops(r: &mut StdRng, n: usize, base: usize, round: usize) -> Vec<Value> {
    let top = n - 1; // shared literal
    let hi = n - 2; // the variable of the trailing cubes (highest positive bit: sorts last)
    // pairwise incomparable cubes (so that all of them are kept): hi / 2 positive literals among the low
    // variables, all sharing one negative literal; as many as asked for, or as exist
    let mut all: Vec<usize> = (0..(1usize << hi)).filter(|m| m.count_ones() as usize == hi / 2).collect();
    for k in (1..all.len()).rev() {
        all.swap(k, r.gen_range(0..=k));
    }
    let mut l: Vec<(usize, usize)> = all.into_iter().take(base).map(|p| (p, 1 << top)).collect();
    // trailing cubes: x_hi alone, x_i x_hi, !x_j x_hi, and the same with the shared literal
    let i = r.gen_range(0..hi);
    let jv = r.gen_range(0..hi);
    let mut tail = vec![(1 << hi, 0), ((1 << hi) | (1 << i), 0), (1 << hi, 1 << jv), ((1 << hi) | (1 << i), 1 << top)];
    if round % 2 == 1 {
        tail.reverse();
    }
    // a literal-free neighbour for the first group as well
    l.extend(tail);
    if round % 4 >= 2 {
        // shuffled input order (simplify sorts)
        for k in (1..l.len()).rev() {
            l.swap(k, r.gen_range(0..=k));
        }
    }
    let mut ops = vec![
        sop_mk(0, n, &l, "sop"),
        json!({"op": "t_mk", "k": "sop", "c": "zero", "d": 1, "n": n}),
        json!({"op": "t_mk", "k": "sop", "c": "one", "d": 2, "n": n}),
        json!({"op": "t_bin", "g": "or", "f": FORMS[round % 4], "a": 0, "b": 1, "d": 3}),
        json!({"op": "t_bin", "g": "and", "f": FORMS[(round + 1) % 4], "a": 0, "b": 2, "d": 4}),
        json!({"op": "t_bin", "g": "or", "f": FORMS[(round + 2) % 4], "a": 0, "b": 0, "d": 5}),
        json!({"op": "t_info", "a": 3}),
        json!({"op": "t_info", "a": 4}),
    ];
    ops.push(json!({"op": "t_tolut", "a": 3, "f": "ref"}));
    ops
}

/// C14: Sop operations
pub fn gen_c14(thorough: bool, seed: u64) -> Vec<Episode> {
    let mut eps = Vec::new();
    let mut r = rng(seed, 14);
    // exhaustive small: all cube lists of <= 2 cubes (3 thorough) over n <= 2, <= 2 cubes over n = 3
    for n in 0..=3usize {
        // include the canonical zero cube through contradictory literal lists (p & q overlap)
        // (contradictory cubes cannot be passed to from_cubes: they mention every variable)
        let cubes = all_cubes(n);
        let maxlen = if n <= 2 && thorough { 3 } else { 2 };
        let mut lists: Vec<Vec<(usize, usize)>> = vec![vec![]];
        let mut cur: Vec<Vec<(usize, usize)>> = vec![vec![]];
        for _ in 0..maxlen {
            let mut nxt = Vec::new();
            for l in &cur {
                for &c in &cubes {
                    let mut l2 = l.clone();
                    l2.push(c);
                    nxt.push(l2);
                }
            }
            lists.extend(nxt.iter().cloned());
            cur = nxt;
        }
        let stride = if n == 3 && !thorough { 3 } else { 1 };
        let mut ops = Vec::new();
        for (k, l) in lists.iter().enumerate() {
            if k % stride != 0 {
                continue;
            }
            let other = &lists[(k * 13 + 5) % lists.len()];
            ops.push(sop_mk(0, n, l, "sop"));
            ops.push(sop_mk(1, n, other, "sop"));
            ops.push(json!({"op": "t_not", "f": if k % 2 == 0 {"ref"} else {"val"}, "a": 0, "d": 2}));
            ops.push(json!({"op": "t_info", "a": 2}));
            ops.push(json!({"op": "t_bin", "g": "and", "f": FORMS[k % 4], "a": 0, "b": 1, "d": 3}));
            ops.push(json!({"op": "t_info", "a": 3}));
            ops.push(json!({"op": "t_bin", "g": "or", "f": FORMS[(k + 1) % 4], "a": 0, "b": 1, "d": 4}));
            ops.push(json!({"op": "t_info", "a": 4}));
            ops.push(json!({"op": "t_tolut", "a": 4, "f": "ref"}));
            // constants as operands: results must be simplified whatever the operands were built from
            if k % 3 == 0 {
                ops.push(json!({"op": "t_mk", "k": "sop", "c": "zero", "d": 5, "n": n}));
                ops.push(json!({"op": "t_mk", "k": "sop", "c": "one", "d": 6, "n": n}));
                ops.push(json!({"op": "t_bin", "g": "or", "f": FORMS[k % 4], "a": 5, "b": 0, "d": 7}));
                ops.push(json!({"op": "t_info", "a": 7}));
                ops.push(json!({"op": "t_bin", "g": "or", "f": FORMS[(k + 2) % 4], "a": 0, "b": 5, "d": 7}));
                ops.push(json!({"op": "t_bin", "g": "and", "f": FORMS[(k + 1) % 4], "a": 6, "b": 0, "d": 7}));
                ops.push(json!({"op": "t_info", "a": 7}));
                ops.push(json!({"op": "t_bin", "g": "and", "f": FORMS[(k + 3) % 4], "a": 0, "b": 6, "d": 7}));
                ops.push(json!({"op": "t_bin", "g": "or", "f": "ref_ref", "a": 0, "b": 0, "d": 7}));
                ops.push(json!({"op": "t_bin", "g": "and", "f": "ref_ref", "a": 0, "b": 0, "d": 7}));
                ops.push(json!({"op": "t_bin", "g": "or", "f": "val_val", "a": 0, "b": 6, "d": 7}));
                ops.push(json!({"op": "t_info", "a": 7}));
            }
            if ops.len() > 90 {
                eps.push(ep(n, ops));
                ops = Vec::new();
            }
        }
        if !ops.is_empty() {
            eps.push(ep(n, ops));
        }
    }
    // Lut -> Sop -> Lut for every function of n <= 3 (4 thorough), structured ones above
    for n in 0..=(if thorough { 4 } else { 3 }) {
        let total: u64 = 1u64 << (1u64 << n);
        let mut ops = Vec::new();
        for f in 0..total {
            let on: Vec<usize> = (0..dom(n)).filter(|&m| (f >> m) & 1 == 1).collect();
            ops.push(json!({"op": "t_mk", "k": "sop", "c": if f % 2 == 0 {"from_lut_ref"} else {"from_lut_val"}, "d": 0, "n": n, "on": on}));
            ops.push(json!({"op": "t_tolut", "a": 0, "f": if f % 3 == 0 {"val"} else {"ref"}}));
            if f % 16 == 0 {
                ops.push(json!({"op": "t_info", "a": 0}));
            }
            if ops.len() > 100 {
                eps.push(ep(n, ops));
                ops = Vec::new();
            }
        }
        if !ops.is_empty() {
            eps.push(ep(n, ops));
        }
    }
    for n in 4..=10usize {
        // a spread over the structured family (projections on high variables, single minterms in
        // high blocks, tables with empty blocks, sparse tables), not only its first members
        let st = structured(n, &mut r);
        let stride = if thorough { 1 } else { (st.len() / 7).max(1) };
        let mut tabs: Vec<Vec<usize>> = st.iter().cloned().enumerate().filter(|(k, _)| k % stride == 0).map(|(_, t)| t).collect();
        tabs.push(on_from_fn(n, |m| (m >> (n - 1)) & 1 == 1));
        tabs.push(on_from_fn(n, |m| (m >> (n - 1)) & 1 == 1 && m & 1 == 0));
        tabs.push(sparse_on(n, &mut r, 4));
        tabs.push(vec![dom(n) - 1]);
        tabs.push(vec![dom(n) / 2 + 1, dom(n) - 2]);
        for t in tabs {
            eps.push(ep(n, vec![json!({"op": "t_mk", "k": "sop", "c": "from_lut_ref", "d": 0, "n": n, "on": t}),
                                json!({"op": "t_tolut", "a": 0, "f": "ref"}), json!({"op": "t_info", "a": 0})]));
        }
    }
    // nested expressions on random, redundant, overlapping, nested and duplicated cube lists
    for n in 1..=10usize {
        for round in 0..(if thorough { 60 } else { 8 }) {
            let maxc = if n <= 5 { 6 } else { 12 - (n - 5).min(6) };
            let mut ops = Vec::new();
            let leaves = 3;
            for d in 0..leaves {
                let k = r.gen_range(0..=maxc);
                let mut l: Vec<(usize, usize)> = (0..k).map(|_| random_cube(&mut r, n, 1 + n / 2)).collect();
                if !l.is_empty() {
                    match round % 4 {
                        0 => l.push(l[0]),                                               // duplicate
                        1 => l.push((l[0].0 | (1 << r.gen_range(0..n)) & !l[0].1, l[0].1)), // nested (implies l[0])
                        2 => l.push((l[0].0, l[0].1 & !1)),                              // overlapping
                        _ => {}
                    }
                }
                ops.push(sop_mk(d, n, &l, "sop"));
            }
            // constants and literals as leaves now and then
            if round % 3 == 0 {
                ops.push(json!({"op": "t_mk", "k": "sop", "c": if round % 2 == 0 {"one"} else {"zero"}, "d": 2, "n": n}));
            } else if round % 3 == 1 {
                ops.push(json!({"op": "t_mk", "k": "sop", "c": if round % 2 == 0 {"nth_var"} else {"nth_var_inv"}, "d": 2, "n": n, "i": r.gen_range(0..n)}));
            }
            let mut next = leaves;
            // keep complements of wide Sops out of the deep levels (exponential blow-up)
            let depth = if n <= 6 { 4 } else { 2 };
            let _ = sop_expr(&mut r, depth, leaves, &mut next, &mut ops);
            while next > 7 {
                // slots are limited to 8: fall back to a shallower expression
                ops.truncate(leaves + 1);
                next = leaves;
                let _ = sop_expr(&mut r, 2, leaves, &mut next, &mut ops);
            }
            for d in leaves..next {
                ops.push(json!({"op": "t_info", "a": d}));
            }
            ops.push(json!({"op": "t_tolut", "a": next - 1, "f": "ref"}));
            eps.push(ep(n, ops));
        }
    }
    // long lists (60 .. 140 cubes) most of which share a literal, followed in the sorted order by a few cubes on
    // the top variables in implication relation: the absorption pass of `simplify` at list positions around
    // multiples of 64, where a block-wise or summarised scan would go wrong
    for round in 0..(if thorough { 24 } else { 8 }) {
        let n = 10 + round % 3;
        let base = [61usize, 62, 63, 64, 65, 66, 127, 128][round % 8];
        eps.push(ep(n, long_list_ops(&mut r, n, base, round)));
    }
    // dense products: (all 3^k cubes over k variables) & (the same, possibly with one more literal in every cube):
    // hundreds of thousands of pairwise products collapsing to a handful of cubes - the regime where an
    // implementation batches, compacts or parallelises the product
    for (k, extra) in [(4usize, false), (5, true), (6, false), (6, true)] {
        if !thorough && k == 6 && !extra {
            continue;
        }
        let n = k + 1;
        let all = all_cubes(k);
        let a: Vec<(usize, usize)> = all.iter().map(|&(p, q)| if extra { (p | (1 << k), q) } else { (p, q) }).collect();
        eps.push(ep(n, vec![
            sop_mk(0, n, &a, "sop"),
            sop_mk(1, n, &all, "sop"),
            json!({"op": "t_bin", "g": "and", "f": FORMS[k % 4], "a": 0, "b": 1, "d": 2}),
            json!({"op": "t_info", "a": 2}),
            json!({"op": "t_tolut", "a": 2, "f": "ref"}),
            json!({"op": "t_bin", "g": "or", "f": FORMS[(k + 1) % 4], "a": 0, "b": 1, "d": 3}),
            json!({"op": "t_info", "a": 3}),
        ]));
    }
    eps
}

/// C15: Lut -> Esop (positive-polarity Reed-Muller), Esop operators
pub fn gen_c15(thorough: bool, seed: u64) -> Vec<Episode> {
    let mut eps = Vec::new();
    let mut r = rng(seed, 15);
    for n in 0..=(if thorough { 4 } else { 3 }) {
        let total: u64 = 1u64 << (1u64 << n);
        let mut ops = Vec::new();
        for f in 0..total {
            let on: Vec<usize> = (0..dom(n)).filter(|&m| (f >> m) & 1 == 1).collect();
            ops.push(json!({"op": "t_mk", "k": "esop", "c": if f % 2 == 0 {"from_lut_ref"} else {"from_lut_val"}, "d": 0, "n": n, "on": on}));
            ops.push(json!({"op": "t_tolut", "a": 0, "f": if f % 3 == 0 {"val"} else {"ref"}}));
            ops.push(json!({"op": "t_info", "a": 0}));
            if ops.len() > 100 {
                eps.push(ep(n, ops));
                ops = Vec::new();
            }
        }
        if !ops.is_empty() {
            eps.push(ep(n, ops));
        }
    }
    for n in 4..=10usize {
        let mut tabs = structured(n, &mut r);
        if !thorough {
            let k = tabs.len();
            tabs = tabs.into_iter().skip(k.saturating_sub(if n >= 9 { 4 } else { 8 })).collect();
        }
        tabs.push((0..dom(n)).collect());
        tabs.push(vec![]);
        tabs.push(vec![dom(n) - 1]);
        // functions living in the low part of the table only (whole upper 64-bit blocks are zero),
        // complemented top variables, and one-hot style tables
        let low = random_on(n.min(6), &mut r);
        tabs.push(low.clone());
        tabs.push(on_from_fn(n, |m| (m >> (n - 1)) & 1 == 0));
        tabs.push(on_from_fn(n, |m| (m >> (n - 1)) & 1 == 0 && m & 1 == 1));
        tabs.push(vec![0]);
        tabs.push(on_from_fn(n, |m| m.count_ones() == 1));
        if n >= 8 {
            let mid = random_on(7, &mut r);
            tabs.push(on_from_fn(n, |m| m < 128 && mid.binary_search(&m).is_ok() || (m >> 7) == 2 && low.binary_search(&(m & 63)).is_ok()));
        }
        for t in tabs {
            eps.push(ep(n, vec![json!({"op": "t_mk", "k": "esop", "c": "from_lut_ref", "d": 0, "n": n, "on": t}),
                                json!({"op": "t_tolut", "a": 0, "f": "ref"}), json!({"op": "t_info", "a": 0})]));
        }
    }
    c15_long_lists(thorough, &mut r, &mut eps);
    // operators on random cube lists
    for n in 0..=8usize {
        for k in 0..(if thorough { 80 } else { 12 }) {
            let la: Vec<(usize, usize)> = (0..r.gen_range(0..5)).map(|_| if n == 0 { (0, 0) } else { random_cube(&mut r, n, 3) }).collect();
            let lb: Vec<(usize, usize)> = (0..r.gen_range(0..5)).map(|_| if n == 0 { (0, 0) } else { random_cube(&mut r, n, 3) }).collect();
            let mut ops = vec![sop_mk(0, n, &la, "esop"), sop_mk(1, n, &lb, "esop")];
            ops.push(json!({"op": "t_bin", "g": "xor", "f": FORMS[k % 4], "a": 0, "b": 1, "d": 2}));
            ops.push(json!({"op": "t_not", "f": if k % 2 == 0 {"ref"} else {"val"}, "a": 2, "d": 3}));
            ops.push(json!({"op": "t_not", "f": "val", "a": 3, "d": 4}));
            ops.push(json!({"op": "t_bin", "g": "xor", "f": "ref_ref", "a": 0, "b": 0, "d": 5}));
            for d in [0, 2, 3, 4, 5] {
                ops.push(json!({"op": "t_info", "a": d}));
            }
            ops.push(json!({"op": "t_tolut", "a": 3, "f": "ref"}));
            ops.push(json!({"op": "t_val", "a": 4, "mb": bits(r.gen_range(0..dom(n)))}));
            for c in ["zero", "one"] {
                ops.push(json!({"op": "t_mk", "k": "esop", "c": c, "d": 6, "n": n}));
                ops.push(json!({"op": "t_info", "a": 6}));
                ops.push(json!({"op": "t_not", "f": "ref", "a": 6, "d": 7}));
                ops.push(json!({"op": "t_info", "a": 7}));
            }
            eps.push(ep(n, ops));
        }
    }
    eps
}

/// (appended to C15 by gen_c15): long cube lists with many repeated cubes
fn c15_long_lists(thorough: bool, r: &mut StdRng, eps: &mut Vec<Episode>) {
    for n in 0..=3usize {
        for round in 0..(if thorough { 12 } else { 3 }) {
            let pool: Vec<(usize, usize)> = (0..3).map(|_| if n == 0 { (0, 0) } else { random_cube(r, n, 2) }).collect();
            let len_a = 22 + 5 * round;
            let la: Vec<(usize, usize)> = (0..len_a).map(|k| pool[k % pool.len().min(1 + round % 3)]).collect();
            let lb: Vec<(usize, usize)> = (0..40).map(|_| if n == 0 { (0, 0) } else { random_cube(r, n, 2) }).collect();
            let mut ops = vec![sop_mk(0, n, &la, "esop"), sop_mk(1, n, &lb, "esop")];
            // a ^ a, (a ^ a) ^ a, b ^ b', accumulations crossing any internal size threshold
            ops.push(json!({"op": "t_bin", "g": "xor", "f": FORMS[round % 4], "a": 0, "b": 0, "d": 2}));
            ops.push(json!({"op": "t_info", "a": 2}));
            ops.push(json!({"op": "t_bin", "g": "xor", "f": FORMS[(round + 1) % 4], "a": 2, "b": 0, "d": 3}));
            ops.push(json!({"op": "t_info", "a": 3}));
            ops.push(json!({"op": "t_bin", "g": "xor", "f": FORMS[(round + 2) % 4], "a": 3, "b": 1, "d": 4}));
            ops.push(json!({"op": "t_bin", "g": "xor", "f": FORMS[(round + 3) % 4], "a": 1, "b": 1, "d": 5}));
            ops.push(json!({"op": "t_info", "a": 5}));
            ops.push(json!({"op": "t_not", "f": "ref", "a": 4, "d": 6}));
            ops.push(json!({"op": "t_tolut", "a": 6, "f": "ref"}));
            eps.push(ep(n, ops));
        }
    }
    // accumulating Reed-Muller forms of several functions
    for n in [4usize, 5, 6] {
        let mut ops = vec![json!({"op": "t_mk", "k": "esop", "c": "zero", "d": 0, "n": n})];
        for k in 0..(if thorough { 8 } else { 5 }) {
            ops.push(json!({"op": "t_mk", "k": "esop", "c": "from_lut_ref", "d": 1, "n": n, "on": random_on(n, r)}));
            ops.push(json!({"op": "t_bin", "g": "xor", "f": FORMS[k % 4], "a": 0, "b": 1, "d": 0}));
            ops.push(json!({"op": "t_info", "a": 0}));
        }
        ops.push(json!({"op": "t_tolut", "a": 0, "f": "ref"}));
        eps.push(ep(n, ops));
    }
}

/// Forms whose adjacent terms print as prefixes of one another (see gen_c16)
pub fn confusable_ops(r: &mut StdRng, n: usize, round: usize) -> Vec<Value> {
    // a common prefix of literals on variables printed BEFORE x1 (only x0), then x1 | x1d, d = 0, 1
    let two = if n >= 12 && round % 2 == 1 { 11 } else { 10 };
    let pre: (usize, usize) = match round % 3 {
        0 => (0, 0),
        1 => (1, 0),
        _ => (0, 1),
    };
    let neg_last = round % 4 >= 2;
    let lit = |v: usize| -> (usize, usize) { if neg_last { (pre.0, pre.1 | (1 << v)) } else { (pre.0 | (1 << v), pre.1) } };
    let a = lit(1);
    let b = lit(two);
    let other = random_cube(r, n, 3);
    let lists: Vec<Vec<(usize, usize)>> = vec![vec![a, b], vec![b, a], vec![other, a, b], vec![a, b, other], vec![a, other, b], vec![b, a, (a.0 | (1 << 2), a.1)]];
    let mut ops = Vec::new();
    for (k, l) in lists.iter().enumerate() {
        let kind = if (k + round) % 2 == 0 { "sop" } else { "esop" };
        ops.push(sop_mk(0, n, l, kind));
        ops.push(json!({"op": "t_text", "a": 0, "n": n}));
        ops.push(sop_mk(1, n, l, if kind == "sop" { "esop" } else { "sop" }));
        ops.push(json!({"op": "t_text", "a": 1, "n": n}));
    }
    // exclusive terms: x1 | x10, 1 ^ x1 | 1 ^ x1 ^ x10, ...
    let e1 = ecube_json(1 << 1, round % 2 == 0);
    let e2 = ecube_json(1 << two, round % 2 == 0);
    let e3 = ecube_json((1 << 1) | (1 << two), round % 4 < 2);
    for l in [vec![e1.clone(), e2.clone()], vec![e2.clone(), e1.clone()], vec![e1.clone(), e3.clone()], vec![e3, e1, e2]] {
        ops.push(json!({"op": "t_mk", "k": "soes", "c": "from_cubes", "d": 2, "n": n, "cubes": l}));
        ops.push(json!({"op": "t_text", "a": 2, "n": n}));
    }
    ops
}

/// C16: Display of cubes and forms
pub fn gen_c16(thorough: bool, seed: u64) -> Vec<Episode> {
    let mut eps = Vec::new();
    let mut r = rng(seed, 16);
    for n in 0..=4usize {
        eps.push(ep(n, vec![json!({"op": "t_alltext", "k": "cube", "n": n})]));
        eps.push(ep(n, vec![json!({"op": "t_alltext", "k": "ecube", "n": n})]));
        let mut ops = Vec::new();
        for (p, q) in all_cubes(n) {
            ops.push(mk_cube(0, p, q));
            ops.push(json!({"op": "t_text", "a": 0, "n": n}));
        }
        for v in 0..(1usize << n) {
            for x in [false, true] {
                ops.push(mk_ecube(0, v, x));
                ops.push(json!({"op": "t_text", "a": 0, "n": n}));
            }
        }
        ops.push(json!({"op": "t_mk", "k": "cube", "c": "zero", "d": 0}));
        ops.push(json!({"op": "t_text", "a": 0, "n": n}));
        for chunk in ops.chunks(100) {
            eps.push(ep(n, chunk.to_vec()));
        }
    }
    // all forms of <= 2 terms (3 thorough) over n <= 3 (quick: n <= 2 for three kinds x all pairs)
    let max_terms = if thorough { 3 } else { 2 };
    for n in 0..=3usize {
        let cubes = all_cubes(n);
        let ecubes: Vec<(usize, bool)> = (0..(1usize << n)).flat_map(|v| [(v, false), (v, true)]).collect();
        let mut ops = Vec::new();
        let emit = |ops: &mut Vec<Value>, eps: &mut Vec<Episode>| {
            if ops.len() > 100 {
                eps.push(ep(n, std::mem::take(ops)));
            }
        };
        // index tuples
        let mut idx: Vec<Vec<usize>> = vec![vec![]];
        let mut cur: Vec<Vec<usize>> = vec![vec![]];
        for _ in 0..max_terms {
            let mut nxt = Vec::new();
            for l in &cur {
                for c in 0..cubes.len().max(ecubes.len()) {
                    let mut l2 = l.clone();
                    l2.push(c);
                    nxt.push(l2);
                }
            }
            idx.extend(nxt.iter().cloned());
            cur = nxt;
        }
        let stride = if n == 3 { if thorough { 7 } else { 5 } } else { 1 };
        for (k, l) in idx.iter().enumerate() {
            if k % stride != 0 {
                continue;
            }
            if l.iter().all(|&c| c < cubes.len()) {
                let cl: Vec<(usize, usize)> = l.iter().map(|&c| cubes[c]).collect();
                ops.push(sop_mk(0, n, &cl, "sop"));
                ops.push(json!({"op": "t_text", "a": 0, "n": n}));
                ops.push(sop_mk(1, n, &cl, "esop"));
                ops.push(json!({"op": "t_text", "a": 1, "n": n}));
            }
            if l.iter().all(|&c| c < ecubes.len()) {
                let el: Vec<Value> = l.iter().map(|&c| ecube_json(ecubes[c].0, ecubes[c].1)).collect();
                ops.push(json!({"op": "t_mk", "k": "soes", "c": "from_cubes", "d": 2, "n": n, "cubes": el}));
                ops.push(json!({"op": "t_text", "a": 2, "n": n}));
            }
            emit(&mut ops, &mut eps);
        }
        if !ops.is_empty() {
            eps.push(ep(n, ops));
        }
    }
    // cubes and exclusive cubes mentioning every variable (the longest texts): minterm-like cubes with
    // at most two positive or at most two negative literals, for 10..12 variables
    for n in [10usize, 11, 12] {
        let full = dom(n) - 1;
        let mut pos_sets: Vec<usize> = vec![0, full];
        for i in 0..n {
            pos_sets.push(1 << i);
            pos_sets.push(full ^ (1 << i));
            for j in 0..i {
                pos_sets.push((1 << i) | (1 << j));
                if (i + j) % 3 == 0 || thorough {
                    pos_sets.push(full ^ ((1 << i) | (1 << j)));
                }
            }
        }
        let mut ops = Vec::new();
        for p in pos_sets {
            ops.push(mk_cube(0, p, full ^ p));
            ops.push(json!({"op": "t_text", "a": 0, "n": n}));
            if ops.len() >= 60 {
                eps.push(ep(n, std::mem::take(&mut ops)));
            }
        }
        for x in [false, true] {
            ops.push(mk_ecube(1, full, x));
            ops.push(json!({"op": "t_text", "a": 1, "n": n}));
            ops.push(mk_ecube(1, full ^ 1, x));
            ops.push(json!({"op": "t_text", "a": 1, "n": n}));
        }
        // a Sop / Esop made of long cubes
        let cl: Vec<(usize, usize)> = (0..3).map(|k| { let p = (r.gen::<usize>() & full) | (1 << (n - 1 - k)); (p & !(1 << k), (full ^ p) | (1 << k)) }).collect();
        ops.push(sop_mk(2, n, &cl, "sop"));
        ops.push(json!({"op": "t_text", "a": 2, "n": n}));
        ops.push(sop_mk(3, n, &cl, "esop"));
        ops.push(json!({"op": "t_text", "a": 3, "n": n}));
        eps.push(ep(n, ops));
    }
    // random forms up to 12 variables (two-digit indices)
    for n in [5usize, 8, 10, 11, 12] {
        for _ in 0..(if thorough { 60 } else { 8 }) {
            let mut ops = Vec::new();
            let k = r.gen_range(1..=4);
            let cl: Vec<(usize, usize)> = (0..k).map(|_| {
                let (p, q) = random_cube(&mut r, n, 4);
                // make sure the two-digit variables show up
                (p | if r.gen() { 1 << (n - 1) } else { 0 }, q & !(1 << (n - 1)))
            }).collect();
            ops.push(sop_mk(0, n, &cl, "sop"));
            ops.push(json!({"op": "t_text", "a": 0, "n": n}));
            ops.push(sop_mk(1, n, &cl, "esop"));
            ops.push(json!({"op": "t_text", "a": 1, "n": n}));
            let el: Vec<Value> = (0..k).map(|_| ecube_json(r.gen_range(0..dom(n)) | (1 << (n - 1)), r.gen())).collect();
            ops.push(json!({"op": "t_mk", "k": "soes", "c": "from_cubes", "d": 2, "n": n, "cubes": el}));
            ops.push(json!({"op": "t_text", "a": 2, "n": n}));
            let (p, q) = cl[0];
            ops.push(mk_cube(3, p, q));
            ops.push(json!({"op": "t_text", "a": 3, "n": n}));
            ops.push(mk_ecube(4, r.gen_range(0..dom(n)) | (1 << (n - 1)) | (1 << (n - 2)), r.gen()));
            ops.push(json!({"op": "t_text", "a": 4, "n": n}));
            // results of operations print too
            ops.push(json!({"op": "t_not", "f": "ref", "a": 0, "d": 5}));
            ops.push(json!({"op": "t_text", "a": 5, "n": n}));
            ops.push(json!({"op": "t_not", "f": "ref", "a": 1, "d": 6}));
            ops.push(json!({"op": "t_text", "a": 6, "n": n}));
            eps.push(ep(n, ops));
        }
    }
    // terms whose texts are prefixes of one another once indices have two digits (x1 / x10 / x11, !x1 / !x10):
    // adjacent in the list in both orders, behind a common literal prefix, in all three kinds of form
    for n in [11usize, 12] {
        for round in 0..(if thorough { 24 } else { 6 }) {
            eps.push(ep(n, confusable_ops(&mut r, n, round)));
        }
    }
    // forms of several hundred terms (whatever a Display impl does per batch of terms)
    for (n, len) in [(8usize, 257usize), (8, 300), (9, 513), (9, 600)] {
        if !thorough && len > 320 {
            continue;
        }
        let mut seen = std::collections::HashSet::new();
        let mut cl: Vec<(usize, usize)> = Vec::new();
        while cl.len() < len {
            let c = random_cube(&mut r, n, 4);
            if seen.insert(c) {
                cl.push(c);
            }
        }
        let el: Vec<Value> = (0..len).map(|k| ecube_json(1 + (k * 7 + k / 3) % (dom(n) - 1), k % 3 == 0)).collect();
        eps.push(ep(n, vec![
            sop_mk(0, n, &cl, "sop"),
            json!({"op": "t_text", "a": 0, "n": n}),
            sop_mk(1, n, &cl, "esop"),
            json!({"op": "t_text", "a": 1, "n": n}),
            json!({"op": "t_mk", "k": "soes", "c": "from_cubes", "d": 2, "n": n, "cubes": el}),
            json!({"op": "t_text", "a": 2, "n": n}),
        ]));
    }
    // a print that fails half-way (a bounded sink) followed by prints of OTHER forms on the same thread
    for round in 0..(if thorough { 24 } else { 8 }) {
        let n = 4 + round % 6;
        let a: Vec<(usize, usize)> = (0..2 + round % 3).map(|_| random_cube(&mut r, n, 3)).collect();
        let b: Vec<(usize, usize)> = (0..1 + round % 4).map(|_| random_cube(&mut r, n, 3)).collect();
        let el: Vec<Value> = (0..2).map(|_| ecube_json(r.gen_range(1..dom(n)), r.gen())).collect();
        let kinds = ["sop", "esop"];
        let mut ops = vec![
            sop_mk(0, n, &a, kinds[round % 2]),
            sop_mk(1, n, &b, kinds[(round + 1) % 2]),
            json!({"op": "t_mk", "k": "soes", "c": "from_cubes", "d": 2, "n": n, "cubes": el}),
        ];
        for (fail, then) in [(0usize, 1usize), (1, 2), (2, 0), (0, 0)] {
            ops.push(json!({"op": "t_text_fail", "a": fail, "limit": 1 + (round + fail) % 5}));
            ops.push(json!({"op": "t_text", "a": then, "n": n}));
        }
        eps.push(ep(n, ops));
    }
    // Display called with formatter flags (width, alignment, sign, zero padding, alternate): whatever is printed must
    // still read as the same formula (blanks may surround it, not split its tokens)
    for round in 0..(if thorough { 12 } else { 4 }) {
        let n = 11 + round % 2;
        let c = random_cube(&mut r, n, 3);
        let c2 = (c.0 | (1 << (n - 1)), c.1 & !(1 << (n - 1)));
        let cl: Vec<(usize, usize)> = (0..3).map(|_| random_cube(&mut r, n, 3)).collect();
        let mut ops = vec![
            mk_cube(0, c2.0, c2.1),
            mk_ecube(1, r.gen_range(1..dom(n)) | (1 << (n - 1)), r.gen()),
            sop_mk(2, n, &cl, "sop"),
            sop_mk(3, n, &cl, "esop"),
            json!({"op": "t_mk", "k": "soes", "c": "from_cubes", "d": 4, "n": n, "cubes": [ecube_json(r.gen_range(1..dom(n)), true), ecube_json(r.gen_range(1..dom(n)), false)]}),
        ];
        for a in 0..5 {
            for fl in ["w8", "right", "center", "plus", "zero", "alt"] {
                ops.push(json!({"op": "t_text", "a": a, "n": n, "fmt": fl}));
            }
        }
        eps.push(ep(n, ops));
    }
    eps
}


/// C18: the MIP optimizers (driven by the `voptim` binary, built with the optim-mip feature)
pub fn gen_c18(thorough: bool, seed: u64) -> Vec<Episode> {
    let mut eps = Vec::new();
    let mut r = rng(seed, 18);
    let triples: Vec<(i32, i32, i32)> = if thorough {
        let mut v = Vec::new();
        for a in 1..=3 {
            for x in 1..=3 {
                for o in 1..=3 {
                    v.push((a, x, o));
                }
            }
        }
        v
    } else {
        vec![(1, 1, 1), (1, 2, 1), (2, 1, 3), (3, 3, 1)]
    };
    let kinds = ["sop", "sopes", "esop"];
    let onset = |n: usize, f: u64| -> Vec<usize> { (0..dom(n)).filter(|&m| (f >> m) & 1 == 1).collect() };
    let mut k = 0usize;
    let push = |eps: &mut Vec<Episode>, n: usize, fs: Vec<Vec<usize>>, kind: &str, t: (i32, i32, i32)| {
        eps.push(ep(n, vec![json!({"op": "optimize", "kind": kind, "n": n, "fs": fs, "andc": t.0, "xorc": t.1, "orc": t.2})]));
    };
    // all lists of 1..2 functions for n <= 2
    for n in 0..=2usize {
        let total: u64 = 1u64 << (1u64 << n);
        for f in 0..total {
            for kind in kinds {
                for &t in &triples {
                    k += 1;
                    if !thorough && n == 2 && k % 2 == 0 {
                        continue;
                    }
                    push(&mut eps, n, vec![onset(n, f)], kind, t);
                }
            }
            for g in 0..total {
                for kind in kinds {
                    k += 1;
                    if !thorough && n == 2 && (k % 5 != 0) {
                        continue;
                    }
                    let t = triples[k % triples.len()];
                    push(&mut eps, n, vec![onset(n, f), onset(n, g)], kind, t);
                }
            }
        }
    }
    // all single functions of n = 3
    for f in 0..256u64 {
        for kind in kinds {
            k += 1;
            if !thorough && k % 3 != 0 {
                continue;
            }
            let t = triples[k % triples.len()];
            push(&mut eps, 3, vec![onset(3, f)], kind, t);
        }
    }
    // several outputs sharing minterms, small on-sets (where sharing a non-prime cube can pay off):
    // n = 3 with 2..3 outputs, n = 4 with 2..3 outputs; OR forms only need states over the on-sets
    let chains = |n: usize, r: &mut StdRng, outs: usize, len: usize| -> Vec<Vec<usize>> {
        let m0 = if r.gen() { dom(n) - 1 } else { r.gen_range(0..dom(n)) };
        (0..outs)
            .map(|_| {
                let mut on = vec![m0];
                let mut cur = m0;
                for _ in 1..len {
                    cur ^= 1 << r.gen_range(0..n);
                    on.push(cur);
                }
                on.sort();
                on.dedup();
                on
            })
            .collect()
    };
    for n in [3usize, 4] {
        for outs in [2usize, 3] {
            let cnt = if thorough { 60 } else if outs == 2 { 16 } else { 8 };
            for i in 0..cnt {
                let len = if outs == 3 { 3 } else { 3 + i % 2 };
                let fs = chains(n, &mut r, outs, len);
                let kind = if i % 4 == 3 { "sopes" } else { "sop" };
                push(&mut eps, n, fs, kind, triples[i % triples.len()]);
            }
        }
    }
    // one output that is the OR of many minterms which the other outputs (isolated minterms) already
    // pay for: its cheapest form has more terms than any single-output optimum would use
    for i in 0..(if thorough { 16 } else { 6 }) {
        let n = 3usize;
        // f1, f2: sets of pairwise non-adjacent minterms; f0: their union plus maybe one more
        let even: Vec<usize> = (0..8).filter(|m: &usize| m.count_ones() % 2 == 0).collect();
        let odd: Vec<usize> = (0..8).filter(|m: &usize| m.count_ones() % 2 == 1).collect();
        let k1 = 2 + (i + 1) % 2;
        let f1: Vec<usize> = (0..k1).map(|j| even[(i + j) % 4]).collect();
        let f2: Vec<usize> = (0..5 - k1 + (i / 2) % 2).map(|j| odd[(i + j) % 4]).collect();
        let mut f0: Vec<usize> = f1.iter().chain(f2.iter()).cloned().collect();
        f0.sort();
        f0.dedup();
        let mut a = f1.clone();
        a.sort();
        a.dedup();
        let mut b = f2.clone();
        b.sort();
        b.dedup();
        let t = [(3, 1, 1), (2, 1, 1), (3, 3, 2), (3, 2, 1)][i % 4];
        push(&mut eps, n, vec![f0.clone(), a.clone(), b.clone()], "sop", t);
        if i % 3 == 0 {
            push(&mut eps, n, vec![f0, a, b], "sopes", (3, 3, 1));
        }
    }
    push(&mut eps, 3, vec![vec![0usize, 1, 3, 5, 6], vec![0, 3, 5], vec![1, 6]], "sop", (3, 1, 1));
    // the classic 3-output witness: f1 = a(b + c'), f2 = b(c + a'), f3 = c(a + b')
    push(&mut eps, 3, vec![vec![1usize, 3, 7], vec![2, 6, 7], vec![4, 5, 7]], "sop", (1, 1, 1));
    if thorough {
        // two outputs at n = 3 (sampled)
        for _ in 0..40 {
            let kind = kinds[r.gen_range(0..3)];
            let t = triples[r.gen_range(0..triples.len())];
            push(&mut eps, 3, vec![onset(3, r.gen_range(0..256)), onset(3, r.gen_range(0..256))], kind, t);
        }
    }
    // beyond the exact optimum of the specification (Esop with several outputs at n = 3, anything at n = 4): the same
    // instance under two random input permutations / output orders must get the same cost, and no more than
    // the minterm / Reed-Muller forms
    {
        let cnt = if thorough { 120 } else { 30 };
        for i in 0..cnt {
            let n = if i % 3 == 2 { 4 } else { 3 };
            let outs = 1 + (i / 3) % 3;
            if n == 3 && outs == 1 && i % 2 == 0 {
                continue; // covered exactly above
            }
            let fs: Vec<Vec<usize>> = (0..outs)
                .map(|_| {
                    if n == 4 && r.gen_range(0..3) == 0 {
                        let k = 3 + r.gen_range(0..4);
                        sparse_on(n, &mut r, k)
                    } else {
                        random_on(n, &mut r)
                    }
                })
                .collect();
            let kind = ["esop", "esop", "sop", "sopes"][i % 4];
            let t = [(3, 3, 1), (3, 1, 1), (2, 3, 3), (3, 2, 2), (1, 1, 1)][i % 5];
            let variants: Vec<Value> = (0..2)
                .map(|_| {
                    let mut perm: Vec<usize> = (0..n).collect();
                    for k in (1..n).rev() {
                        perm.swap(k, r.gen_range(0..=k));
                    }
                    let mut order: Vec<usize> = (0..outs).collect();
                    for k in (1..outs).rev() {
                        order.swap(k, r.gen_range(0..=k));
                    }
                    json!({"perm": perm, "order": order})
                })
                .collect();
            eps.push(ep(n, vec![json!({"op": "optimize_var", "kind": kind, "n": n, "fs": fs, "andc": t.0, "xorc": t.1, "orc": t.2, "variants": variants})]));
        }
    }
    // the same function listed two or three times (n = 3): the forms trade term gates against join gates, which are
    // now paid per copy; the specification has the exact optimum (single-output optimum with the join cost multiplied)
    {
        let cnt = if thorough { 512 } else { 150 };
        for i in 0..cnt {
            let f: u64 = if thorough { (i % 256) as u64 } else if i < 45 { [0x16u64, 0x7e, 0xbd, 0xdb, 0xe7, 0x69, 0x96, 0xe8, 0x17][i % 9] ^ ((i / 9) as u64 * 0x24) } else { (i as u64 * 37 + 0x16) & 0xff };
            let copies = 2 + i % 2;
            let kind = ["esop", "sopes", "esop", "esop", "sop", "esop"][i % 6];
            let t = [(1, 1, 1), (1, 3, 2), (2, 1, 1), (1, 2, 3)][(i / 2) % 4];
            push(&mut eps, 3, vec![onset(3, f & 0xff); copies], kind, t);
        }
        // ... and at n = 2 for every function
        for f in 0..16u64 {
            push(&mut eps, 2, vec![onset(2, f); 3], kinds[(f % 3) as usize], triples[(f as usize) % triples.len()]);
        }
    }
    // one output is exactly a cube; the minterms of that cube are each needed, alone, by another output (which
    // makes the OR of the sub-cubes cheaper than the cube when AND gates cost more than OR gates)
    {
        let mut k = 0usize;
        for n in [3usize, 4] {
            for (p, q) in all_cubes(n) {
                let free: Vec<usize> = (0..n).filter(|v| (p | q) >> v & 1 == 0).collect();
                if free.len() != 1 && !(free.len() == 2 && thorough) {
                    continue;
                }
                k += 1;
                if !thorough && n == 4 && k % 3 != 0 {
                    continue;
                }
                let members: Vec<usize> = (0..dom(n)).filter(|m| m & p == p && m & q == 0).collect();
                let mut fs: Vec<Vec<usize>> = vec![members.clone()];
                for (t, &m) in members.iter().enumerate().take(2) {
                    // the minterm itself plus a far-away one (the complement assignment, shifted per output)
                    let far = (!m & (dom(n) - 1)) ^ (t << (n - 1)) & (dom(n) - 1);
                    let mut o = vec![m];
                    if far != m && !members.contains(&far) {
                        o.push(far);
                    }
                    o.sort();
                    fs.push(o);
                }
                let t = [(3, 1, 1), (2, 1, 1), (3, 2, 2), (3, 3, 1)][k % 4];
                push(&mut eps, n, fs.clone(), "sop", t);
                if k % 2 == 0 {
                    push(&mut eps, n, fs, "sopes", t);
                }
            }
        }
    }
    // outputs whose implicants include the XOR of a variable set in one output and the XNOR of the same set in
    // another (Sopes: the two exclusive cubes are different terms, each paid for)
    {
        let mut k = 0usize;
        for n in [2usize, 3] {
            for sset in 1..dom(n) {
                if (sset as u32).count_ones() < 2 {
                    continue;
                }
                let par = |m: usize| ((m & sset) as u32).count_ones() % 2 == 1;
                let xor_on: Vec<usize> = (0..dom(n)).filter(|&m| par(m)).collect();
                let xnor_on: Vec<usize> = (0..dom(n)).filter(|&m| !par(m)).collect();
                // one output contains the XOR of S as an implicant it does not need (XOR of S minus v, OR the literal of
                // v), the other output is the XNOR of S - and the same with the polarities exchanged
                for v in 0..n {
                    if (sset >> v) & 1 == 0 {
                        continue;
                    }
                    let tset = sset & !(1 << v);
                    let part = |m: usize| ((m & tset) as u32).count_ones() % 2 == 1;
                    for pol in [true, false] {
                        k += 1;
                        let f1: Vec<usize> = (0..dom(n)).filter(|&m| part(m) || ((m >> v) & 1 == 1) == pol).collect();
                        let f2: Vec<usize> = if pol { xnor_on.clone() } else { xor_on.clone() };
                        for t in [(1, 3, 1), (1, 2, 1), (2, 3, 1)] {
                            if !thorough && (k + t.1 as usize) % 2 == 0 {
                                continue;
                            }
                            push(&mut eps, n, vec![f1.clone(), f2.clone()], "sopes", t);
                        }
                    }
                }
                for extra in 0..(if thorough { 4 } else { 2 }) {
                    k += 1;
                    // the XOR output gets one more minterm, the XNOR output loses one (so the plain pair is not the whole story)
                    let mut f1 = xor_on.clone();
                    let add = xnor_on[(k + extra) % xnor_on.len()];
                    if extra % 2 == 1 {
                        f1.push(add);
                        f1.sort();
                    }
                    let f2: Vec<usize> = if extra >= 2 { xnor_on.iter().cloned().filter(|&m| m != add).collect() } else { xnor_on.clone() };
                    let t = [(1, 3, 1), (1, 2, 1), (2, 3, 1), (1, 1, 1)][k % 4];
                    push(&mut eps, n, vec![f1.clone(), f2.clone()], "sopes", t);
                    if n == 2 {
                        push(&mut eps, n, vec![f1, f2, vec![1usize]], "sopes", t);
                    }
                }
            }
        }
    }
    eps
}
