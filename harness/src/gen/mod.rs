//! Script generators, one per property.  A script is a sequence of episodes; an episode is a
//! `reset` line (carrying `tys`: which table types it applies to, and `n`) followed by operations.

pub mod common;
pub mod lutops;
pub mod two;

use serde_json::Value;

pub struct Episode {
    pub n: usize,
    pub tys: &'static str, // "both" | "lut" | "lutn" | "two"
    pub ops: Vec<Value>,
}

/// Rough cost of validating an episode (used only to split traces into balanced chunks)
pub fn weight(prop: &str, e: &Episode, thorough: bool) -> usize {
    let base = e.ops.len() * (1 + (1usize << e.n) / 16);
    if prop == "C04" {
        let mut w = base;
        for op in &e.ops {
            if op["op"] == "canon_inv" {
                w += 40;
            }
            if op["op"] == "canon" {
                // beyond enumeration (quick: npn > 6, p > 7; thorough: npn > 7): walk check (cached per trace file)
                // and orbit neighbourhood only
                w += match (op["kind"].as_str().unwrap_or(""), e.n) {
                    ("npn", n) if n >= 8 => 300,
                    ("npn", 7) => if thorough { 6000 } else { 300 },
                    ("npn", 6) => 4000,
                    ("npn", 5) => 400,
                    ("p", 8) => if thorough { 3000 } else { 300 },
                    ("p", 7) => 1500,
                    ("p", 6) => 150,
                    (_, 8) => 1500,
                    (_, 7) => 600,
                    _ => 10,
                };
            }
        }
        return w;
    }
    if e.tys == "two" {
        // evaluating a form costs (number of terms) x (number of assignments); a form built from a table
        // or a cube list is evaluated by every later operation of the episode
        let mut terms = 0usize;
        for op in &e.ops {
            for k in ["on", "cubes"] {
                if let Some(a) = op.get(k).and_then(|v| v.as_array()) {
                    terms += a.len();
                }
            }
        }
        return base + terms * e.ops.len() * (1usize << e.n) / 256;
    }
    base
}

pub fn generate(prop: &str, tier: &str, seed: u64) -> Vec<Episode> {
    let thorough = tier == "thorough";
    match prop {
        "C01" => lutops::gen_c01(thorough, seed),
        "C02" => lutops::gen_c02(thorough, seed),
        "C03" => lutops::gen_c03(thorough, seed),
        "C04" => lutops::gen_canon(thorough, seed, false),
        "C05" => lutops::gen_canon(thorough, seed, true),
        "C06" => lutops::gen_c06(thorough, seed),
        "C07" => lutops::gen_c07(thorough, seed),
        "C08" => lutops::gen_c08(thorough, seed),
        "C09" => lutops::gen_c09(thorough, seed),
        "C10a" => lutops::gen_c10a(thorough, seed),
        "C10b" => lutops::gen_c10b(thorough, seed),
        "C10s" => lutops::gen_c10s(thorough, seed),
        "C11" => lutops::gen_c11(thorough, seed),
        "C17" => lutops::gen_c17(thorough, seed),
        "C19" => lutops::gen_c19(thorough, seed),
        "C12" => two::gen_c12(thorough, seed),
        "C13" => two::gen_c13(thorough, seed),
        "C14" => two::gen_c14(thorough, seed),
        "C15" => two::gen_c15(thorough, seed),
        "C16" => two::gen_c16(thorough, seed),
        "C18" => two::gen_c18(thorough, seed),
        _ => panic!("HARNESS: no generator for {}", prop),
    }
}
