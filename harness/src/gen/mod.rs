//! Script generators, one per property.  A script is a sequence of episodes; an episode is a
//! `reset` line (carrying `tys`: which table types it applies to, and `n`) followed by operations.

pub mod common;
pub mod lutops;

use serde_json::Value;

pub struct Episode {
    pub n: usize,
    pub tys: &'static str, // "both" | "lut" | "lutn"
    pub ops: Vec<Value>,
}

pub fn generate(prop: &str, tier: &str, seed: u64) -> Vec<Episode> {
    let thorough = tier == "thorough";
    match prop {
        "C03" => lutops::gen_c03(thorough, seed),
        _ => panic!("HARNESS: no generator for {}", prop),
    }
}
