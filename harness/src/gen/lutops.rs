//! Generators for the properties about `Lut` / `LutN` operations.

use super::common::*;
use super::Episode;
use rand::Rng;
use serde_json::{json, Value};

fn load(d: usize, n: usize, on: &[usize]) -> Value {
    json!({"op": "load", "d": d, "n": n, "on": on})
}

fn tys_for(n: usize) -> &'static str {
    if n <= 12 {
        "both"
    } else {
        "lut"
    }
}

/// C03: flip / swap / swap_adjacent / cofactors / from_cofactors, copying and in-place forms
pub fn gen_c03(thorough: bool, seed: u64) -> Vec<Episode> {
    let mut eps = Vec::new();
    let mut r = rng(seed, 3);
    let max_n = 14;
    for n in 1..=max_n {
        let tables = structured(n, &mut r);
        let mut ti = r.gen_range(0..tables.len());
        let mut next_table = |r: &mut rand::rngs::StdRng| -> Vec<usize> {
            ti = (ti + 1) % tables.len();
            if r.gen_range(0..4) == 0 {
                random_on(n, r)
            } else {
                tables[ti].clone()
            }
        };
        // index pairs: all of them up to 12 variables; regime-covering selection above
        let mut pairs: Vec<(usize, usize)> = Vec::new();
        if n <= 12 || thorough {
            for i in 0..n {
                for j in 0..n {
                    pairs.push((i, j));
                }
            }
        } else {
            let cand = [0, 1, 4, 5, 6, 7, n - 2, n - 1];
            for &i in &cand {
                for &j in &cand {
                    if i < n && j < n && !pairs.contains(&(i, j)) && r.gen_range(0..3) == 0 {
                        pairs.push((i, j));
                    }
                }
            }
            pairs.push((5, 6));
            pairs.push((n - 1, 0));
            pairs.push((n - 1, n - 2));
        }
        let reps = if thorough { 3 } else { 1 };
        let mut k = 0usize;
        for _ in 0..reps {
            // swaps: 4 pairs per episode on the same table
            for chunk in pairs.chunks(4) {
                let t = next_table(&mut r);
                let mut ops = vec![load(0, n, &t)];
                for &(i, j) in chunk {
                    k += 1;
                    if k % 2 == 0 {
                        ops.push(json!({"op": "swap", "f": "copy", "a": 0, "d": 1, "i": i, "j": j}));
                    } else {
                        ops.push(json!({"op": "copy", "a": 0, "d": 1}));
                        ops.push(json!({"op": "swap", "f": "inplace", "a": 1, "d": 1, "i": i, "j": j}));
                    }
                }
                eps.push(Episode { n, tys: tys_for(n), ops });
            }
            // flips, adjacent swaps, cofactors and recomposition: every index
            let idx: Vec<usize> = if n <= 12 || thorough {
                (0..n).collect()
            } else {
                vec![0, 5, 6, n - 1]
            };
            for &i in &idx {
                let t = next_table(&mut r);
                let mut ops = vec![load(0, n, &t)];
                ops.push(json!({"op": "flip", "f": "copy", "a": 0, "d": 1, "i": i}));
                ops.push(json!({"op": "flip", "f": "inplace", "a": 1, "d": 1, "i": i}));
                if i + 1 < n {
                    ops.push(json!({"op": "swapadj", "f": "copy", "a": 0, "d": 2, "i": i}));
                    ops.push(json!({"op": "swapadj", "f": "inplace", "a": 2, "d": 2, "i": i}));
                }
                // cofactors of f, then recomposition gives f back
                ops.push(json!({"op": "cofactors", "a": 0, "d0": 3, "d1": 4, "i": i}));
                ops.push(json!({"op": "fromcof", "a": 3, "b": 4, "d": 5, "i": i}));
                eps.push(Episode { n, tys: tys_for(n), ops });
                // recomposition of two unrelated functions
                let c0 = next_table(&mut r);
                let c1 = if r.gen() { random_on(n, &mut r) } else { next_table(&mut r) };
                let ops = vec![
                    load(0, n, &c0),
                    load(1, n, &c1),
                    json!({"op": "fromcof", "a": 0, "b": 1, "d": 2, "i": i}),
                    json!({"op": "cofactors", "a": 2, "d0": 3, "d1": 4, "i": i}),
                ];
                eps.push(Episode { n, tys: tys_for(n), ops });
            }
        }
    }
    if thorough {
        // every table of up to 3 variables with every index pair; n = 4: every table, rotating pair
        for n in 1..=4usize {
            let total: u64 = 1u64 << (1u64 << n);
            let mut rot = 0usize;
            for f in 0..total {
                let on: Vec<usize> = (0..dom(n)).filter(|&m| (f >> m) & 1 == 1).collect();
                let mut ops = vec![load(0, n, &on)];
                let mut pairs: Vec<(usize, usize)> = Vec::new();
                for i in 0..n {
                    for j in 0..n {
                        pairs.push((i, j));
                    }
                }
                if n == 4 {
                    rot += 1;
                    pairs = vec![pairs[rot % 16], pairs[(rot / 16 + 5) % 16]];
                }
                for (i, j) in pairs {
                    ops.push(json!({"op": "swap", "f": "copy", "a": 0, "d": 1, "i": i, "j": j}));
                }
                let idx: Vec<usize> = if n == 4 { vec![rot % 4] } else { (0..n).collect() };
                for i in idx {
                    ops.push(json!({"op": "flip", "f": "copy", "a": 0, "d": 1, "i": i}));
                    ops.push(json!({"op": "cofactors", "a": 0, "d0": 3, "d1": 4, "i": i}));
                    ops.push(json!({"op": "fromcof", "a": 3, "b": 4, "d": 5, "i": i}));
                }
                eps.push(Episode { n, tys: "both", ops });
            }
        }
    }
    eps
}
