//! Generators for the properties about `Lut` / `LutN` operations.

use super::common::*;
use super::Episode;
use rand::Rng;
use serde_json::{json, Value};

fn load(d: usize, n: usize, on: &[usize]) -> Value {
    json!({"op": "load", "d": d, "n": n, "on": on})
}

fn tys_for(n: usize) -> &'static str {
    if n <= 12 {
        "both"
    } else {
        "lut"
    }
}

/// C03: flip / swap / swap_adjacent / cofactors / from_cofactors, copying and in-place forms
pub fn gen_c03(thorough: bool, seed: u64) -> Vec<Episode> {
    let mut eps = Vec::new();
    eps.push(Episode { n: 0, tys: "lut", ops: vec![json!({"op": "consts"})] });
    let mut r = rng(seed, 3);
    let max_n = 14;
    for n in 1..=max_n {
        let tables = structured(n, &mut r);
        let mut ti = r.gen_range(0..tables.len());
        let mut next_table = |r: &mut rand::rngs::StdRng| -> Vec<usize> {
            ti = (ti + 1) % tables.len();
            if r.gen_range(0..4) == 0 {
                random_on(n, r)
            } else {
                tables[ti].clone()
            }
        };
        // index pairs: all of them up to 12 variables; regime-covering selection above
        let mut pairs: Vec<(usize, usize)> = Vec::new();
        if n <= 12 || thorough {
            for i in 0..n {
                for j in 0..n {
                    pairs.push((i, j));
                }
            }
        } else {
            let cand = [0, 1, 4, 5, 6, 7, n - 2, n - 1];
            for &i in &cand {
                for &j in &cand {
                    if i < n && j < n && !pairs.contains(&(i, j)) && r.gen_range(0..3) == 0 {
                        pairs.push((i, j));
                    }
                }
            }
            pairs.push((5, 6));
            pairs.push((n - 1, 0));
            pairs.push((n - 1, n - 2));
        }
        let reps = if thorough { 3 } else { 1 };
        let mut k = 0usize;
        for _ in 0..reps {
            // swaps: 4 pairs per episode on the same table
            for chunk in pairs.chunks(4) {
                let t = next_table(&mut r);
                let mut ops = vec![load(0, n, &t)];
                for &(i, j) in chunk {
                    k += 1;
                    if k % 2 == 0 {
                        ops.push(json!({"op": "swap", "f": "copy", "a": 0, "d": 1, "i": i, "j": j}));
                    } else {
                        ops.push(json!({"op": "copy", "a": 0, "d": 1}));
                        ops.push(json!({"op": "swap", "f": "inplace", "a": 1, "d": 1, "i": i, "j": j}));
                    }
                }
                eps.push(Episode { n, tys: tys_for(n), ops });
            }
            // flips, adjacent swaps, cofactors and recomposition: every index
            let idx: Vec<usize> = if n <= 12 || thorough {
                (0..n).collect()
            } else {
                vec![0, 5, 6, n - 1]
            };
            for &i in &idx {
                let t = next_table(&mut r);
                let mut ops = vec![load(0, n, &t)];
                ops.push(json!({"op": "flip", "f": "copy", "a": 0, "d": 1, "i": i}));
                ops.push(json!({"op": "flip", "f": "inplace", "a": 1, "d": 1, "i": i}));
                if i + 1 < n {
                    ops.push(json!({"op": "swapadj", "f": "copy", "a": 0, "d": 2, "i": i}));
                    ops.push(json!({"op": "swapadj", "f": "inplace", "a": 2, "d": 2, "i": i}));
                }
                // cofactors of f, then recomposition gives f back
                ops.push(json!({"op": "cofactors", "a": 0, "d0": 3, "d1": 4, "i": i}));
                ops.push(json!({"op": "fromcof", "a": 3, "b": 4, "d": 5, "i": i}));
                eps.push(Episode { n, tys: tys_for(n), ops });
                // recomposition of two unrelated functions
                let c0 = next_table(&mut r);
                let c1 = if r.gen() { random_on(n, &mut r) } else { next_table(&mut r) };
                let ops = vec![
                    load(0, n, &c0),
                    load(1, n, &c1),
                    json!({"op": "fromcof", "a": 0, "b": 1, "d": 2, "i": i}),
                    json!({"op": "cofactors", "a": 2, "d0": 3, "d1": 4, "i": i}),
                ];
                eps.push(Episode { n, tys: tys_for(n), ops });
            }
        }
    }
    if !thorough {
        // the largest sizes of the dynamic Lut: EVERY index pair and every index, on sparse tables
        // (a few hundred minterms keep the events small; a wrong index mapping shows on any of them)
        for n in [13usize, 14] {
            let mut pairs: Vec<(usize, usize)> = Vec::new();
            for i in 0..n {
                for j in 0..n {
                    if i != j {
                        pairs.push((i, j));
                    }
                }
            }
            for chunk in pairs.chunks(6) {
                let t = sparse_on(n, &mut r, 300);
                let mut ops = vec![load(0, n, &t)];
                for (k, &(i, j)) in chunk.iter().enumerate() {
                    if k % 2 == 0 {
                        ops.push(json!({"op": "swap", "f": "copy", "a": 0, "d": 1, "i": i, "j": j}));
                    } else {
                        ops.push(json!({"op": "copy", "a": 0, "d": 1}));
                        ops.push(json!({"op": "swap", "f": "inplace", "a": 1, "d": 1, "i": i, "j": j}));
                    }
                }
                eps.push(Episode { n, tys: "lut", ops });
            }
            for i in 0..n {
                let t = sparse_on(n, &mut r, 300);
                let u = sparse_on(n, &mut r, 300);
                let mut ops = vec![load(0, n, &t), load(1, n, &u)];
                ops.push(json!({"op": "flip", "f": "copy", "a": 0, "d": 2, "i": i}));
                ops.push(json!({"op": "cofactors", "a": 0, "d0": 3, "d1": 4, "i": i}));
                ops.push(json!({"op": "fromcof", "a": 0, "b": 1, "d": 5, "i": i}));
                if i + 1 < n {
                    ops.push(json!({"op": "swapadj", "f": "copy", "a": 0, "d": 2, "i": i}));
                }
                eps.push(Episode { n, tys: "lut", ops });
            }
        }
    }
    if thorough {
        // every table of up to 3 variables with every index pair; n = 4: every table, rotating pair
        for n in 1..=4usize {
            let total: u64 = 1u64 << (1u64 << n);
            let mut rot = 0usize;
            for f in 0..total {
                let on: Vec<usize> = (0..dom(n)).filter(|&m| (f >> m) & 1 == 1).collect();
                let mut ops = vec![load(0, n, &on)];
                let mut pairs: Vec<(usize, usize)> = Vec::new();
                for i in 0..n {
                    for j in 0..n {
                        pairs.push((i, j));
                    }
                }
                if n == 4 {
                    rot += 1;
                    pairs = vec![pairs[rot % 16], pairs[(rot / 16 + 5) % 16]];
                }
                for (i, j) in pairs {
                    ops.push(json!({"op": "swap", "f": "copy", "a": 0, "d": 1, "i": i, "j": j}));
                }
                let idx: Vec<usize> = if n == 4 { vec![rot % 4] } else { (0..n).collect() };
                for i in idx {
                    ops.push(json!({"op": "flip", "f": "copy", "a": 0, "d": 1, "i": i}));
                    ops.push(json!({"op": "cofactors", "a": 0, "d0": 3, "d1": 4, "i": i}));
                    ops.push(json!({"op": "fromcof", "a": 3, "b": 4, "d": 5, "i": i}));
                }
                eps.push(Episode { n, tys: "both", ops });
            }
        }
    }
    eps
}

// ---------------------------------------------------------------------------------------------
// C01

pub const NOT_FORMS: [&str; 4] = ["named", "inplace", "op_val", "op_ref"];
pub const BIN_FORMS: [&str; 8] = [
    "named", "inplace", "ref_ref", "ref_val", "val_ref", "val_val", "assign_val", "assign_ref",
];

fn is_inplace(form: &str) -> bool {
    form == "inplace" || form.starts_with("assign")
}

fn logic_op(g: &str, f: &str, a: usize, b: usize, scratch: usize, ops: &mut Vec<Value>) {
    if is_inplace(f) {
        ops.push(json!({"op": "copy", "a": a, "d": scratch}));
        ops.push(json!({"op": "logic", "g": g, "f": f, "a": scratch, "b": b, "d": scratch}));
    } else {
        ops.push(json!({"op": "logic", "g": g, "f": f, "a": a, "b": b, "d": scratch}));
    }
}

/// C01: every syntactic form of NOT / AND / OR / XOR on both types
pub fn gen_c01(thorough: bool, seed: u64) -> Vec<Episode> {
    let mut eps = Vec::new();
    eps.push(Episode { n: 0, tys: "lut", ops: vec![json!({"op": "consts"})] });
    let mut r = rng(seed, 1);
    let mut forms: Vec<(&str, &str)> = Vec::new();
    for f in NOT_FORMS {
        forms.push(("not", f));
    }
    for g in ["and", "or", "xor"] {
        for f in BIN_FORMS {
            forms.push((g, f));
        }
    }
    for n in 0..=14usize {
        let tables = structured(n, &mut r);
        let npairs = if thorough { 8 } else if n >= 13 { 1 } else { 2 };
        for p in 0..npairs {
            let a = if p % 2 == 0 { random_on(n, &mut r) } else { tables[r.gen_range(0..tables.len())].clone() };
            let b = if p % 3 == 0 { tables[r.gen_range(0..tables.len())].clone() } else { random_on(n, &mut r) };
            for chunk in forms.chunks(if n >= 11 { 4 } else { 7 }) {
                let mut ops = vec![load(0, n, &a), load(1, n, &b)];
                for (k, (g, f)) in chunk.iter().enumerate() {
                    logic_op(g, f, 0, 1, 2 + (k % 3), &mut ops);
                }
                eps.push(Episode { n, tys: tys_for(n), ops });
            }
            // operands that are zero on whole 64-bit blocks at the low end, the high end or both
            if n >= 7 && p == 0 {
                let d = dom(n);
                let nbk = d / 64;
                let rnd = random_on(n, &mut r);
                let keep = |lo: usize, hi: usize| -> Vec<usize> { rnd.iter().cloned().filter(|&m| m / 64 >= lo && m / 64 < hi).collect() };
                let shapes: Vec<Vec<usize>> = vec![
                    keep(nbk - 1, nbk),                 // only the last block
                    keep(0, 1),                         // only the first block
                    keep(nbk / 2, nbk),                 // upper half (a high projection looks like this)
                    keep(nbk / 2, nbk / 2 + 1),         // one block in the middle
                    keep(1, nbk),                       // all but the first block
                    on_from_fn(n, |m| (m >> (n - 1)) & 1 == 1),
                ];
                for (k, sh) in shapes.iter().enumerate() {
                    let mut ops = vec![load(0, n, &a), load(1, n, sh)];
                    for g in ["and", "or", "xor"] {
                        logic_op(g, BIN_FORMS[(k + n) % 8], 0, 1, 2, &mut ops);
                        logic_op(g, BIN_FORMS[(k + n + 3) % 8], 1, 0, 3, &mut ops);
                    }
                    eps.push(Episode { n, tys: tys_for(n), ops });
                }
            }
            // an operand combined with itself: the very same object for the borrowing forms
            // (named, ref_ref), clones for the others
            let mut ops = vec![load(0, n, &a)];
            for g in ["and", "or", "xor"] {
                logic_op(g, "ref_ref", 0, 0, 2, &mut ops);
                logic_op(g, "named", 0, 0, 3, &mut ops);
            }
            logic_op("and", "assign_ref", 0, 0, 3, &mut ops);
            logic_op("or", "val_val", 0, 0, 4, &mut ops);
            logic_op("xor", "assign_val", 0, 0, 4, &mut ops);
            eps.push(Episode { n, tys: tys_for(n), ops });
        }
    }
    // exhaustive small sizes: all pairs for n <= 2, all forms; n = 3: all pairs, rotating form (thorough)
    let max_exh = if thorough { 3 } else { 2 };
    let mut rot = 0usize;
    for n in 0..=max_exh {
        let total: u64 = 1u64 << (1u64 << n);
        for fa in 0..total {
            let a: Vec<usize> = (0..dom(n)).filter(|&m| (fa >> m) & 1 == 1).collect();
            let mut ops = vec![load(0, n, &a)];
            let mut cnt = 0;
            for fb in 0..total {
                let b: Vec<usize> = (0..dom(n)).filter(|&m| (fb >> m) & 1 == 1).collect();
                ops.push(load(1, n, &b));
                if n <= 2 {
                    let fs: Vec<(&str, &str)> = if n <= 1 || thorough {
                        forms.clone()
                    } else {
                        rot += 1;
                        (0..4).map(|k| forms[(rot * 5 + k * 7) % forms.len()]).collect()
                    };
                    for (g, f) in fs {
                        logic_op(g, f, 0, 1, 2, &mut ops);
                    }
                } else {
                    rot += 1;
                    let (g, f) = forms[rot % forms.len()];
                    logic_op(g, f, 0, 1, 2, &mut ops);
                }
                cnt += 1;
                if cnt % 16 == 0 {
                    eps.push(Episode { n, tys: "both", ops });
                    ops = vec![load(0, n, &a)];
                }
            }
            if ops.len() > 1 {
                eps.push(Episode { n, tys: "both", ops });
            }
        }
    }
    eps
}

// ---------------------------------------------------------------------------------------------
// C06

fn from_cof(n: usize, c0: &[usize], c1: &[usize], v: usize) -> Vec<usize> {
    on_from_fn(n, |m| {
        if (m >> v) & 1 == 1 {
            c1.binary_search(&m).is_ok()
        } else {
            c0.binary_search(&m).is_ok()
        }
    })
}

fn complement(n: usize, f: &[usize]) -> Vec<usize> {
    on_from_fn(n, |m| f.binary_search(&m).is_err())
}

/// make a function independent of v (copy the x_v = 0 half)
fn indep(n: usize, f: &[usize], v: usize) -> Vec<usize> {
    on_from_fn(n, |m| f.binary_search(&(m & !(1 << v))).is_ok())
}

fn toggle(f: &[usize], m: usize) -> Vec<usize> {
    let mut g: Vec<usize> = f.to_vec();
    match g.binary_search(&m) {
        Ok(i) => {
            g.remove(i);
        }
        Err(i) => g.insert(i, m),
    }
    g
}

/// C06: top_decomposition / unateness, every variable, with cofactor-structured families and
/// one-bit-off near misses ("predicate true on all words but one")
pub fn gen_c06(thorough: bool, seed: u64) -> Vec<Episode> {
    let mut eps = Vec::new();
    eps.push(Episode { n: 0, tys: "lut", ops: vec![json!({"op": "consts"})] });
    let mut r = rng(seed, 6);
    for n in 1..=12usize {
        // (table, variables to query)
        let all_vars: Vec<usize> = (0..n).collect();
        let mut tabs: Vec<(Vec<usize>, Vec<usize>)> = structured(n, &mut r).into_iter().map(|t| (t, all_vars.clone())).collect();
        let zero: Vec<usize> = vec![];
        let one: Vec<usize> = (0..dom(n)).collect();
        let reps = if thorough { 4 } else { 1 };
        for _ in 0..reps {
            for v in 0..n {
                let g = indep(n, &random_on(n, &mut r), v);
                let h = indep(n, &random_on(n, &mut r), v);
                let ng = complement(n, &g);
                let fam: Vec<Vec<usize>> = vec![
                    from_cof(n, &zero, &one, v),
                    from_cof(n, &one, &zero, v),
                    from_cof(n, &zero, &g, v),
                    from_cof(n, &g, &one, v),
                    from_cof(n, &one, &g, v),
                    from_cof(n, &g, &zero, v),
                    from_cof(n, &g, &ng, v),
                    from_cof(n, &g, &g, v),
                    from_cof(n, &g, &h, v),
                    from_cof(n, &g, &on_from_fn(n, |m| g.binary_search(&m).is_ok() || h.binary_search(&m).is_ok()), v),
                    from_cof(n, &on_from_fn(n, |m| g.binary_search(&m).is_ok() || h.binary_search(&m).is_ok()), &g, v),
                ];
                // the family's own variable plus two others (all of them for small n / thorough)
                let qv: Vec<usize> = if n <= 6 || thorough {
                    all_vars.clone()
                } else {
                    let mut q = vec![v, r.gen_range(0..n), (v + 1) % n];
                    q.sort();
                    q.dedup();
                    q
                };
                for (k, f) in fam.iter().enumerate() {
                    if !thorough && n > 6 && (k + v + n) % 2 != 0 {
                        continue;
                    }
                    tabs.push((f.clone(), qv.clone()));
                    // one-bit-off near misses: the predicate holds on every word but one
                    tabs.push((toggle(f, r.gen_range(0..dom(n))), qv.clone()));
                    if dom(n) > 64 && (thorough || k % 2 == 0) {
                        tabs.push((toggle(f, dom(n) - 1 - r.gen_range(0..64)), qv.clone()));
                    }
                }
            }
        }
        for (t, qv) in tabs {
            let mut ops = vec![load(0, n, &t)];
            for v in qv {
                ops.push(json!({"op": "decomp", "a": 0, "i": v}));
                ops.push(json!({"op": "unate", "a": 0, "i": v, "f": "pos"}));
                ops.push(json!({"op": "unate", "a": 0, "i": v, "f": "neg"}));
            }
            eps.push(Episode { n, tys: tys_for(n), ops });
        }
    }
    if thorough {
        for n in 1..=4usize {
            let total: u64 = 1u64 << (1u64 << n);
            for f in 0..total {
                let on: Vec<usize> = (0..dom(n)).filter(|&m| (f >> m) & 1 == 1).collect();
                let mut ops = vec![load(0, n, &on)];
                for v in 0..n {
                    ops.push(json!({"op": "decomp", "a": 0, "i": v}));
                    ops.push(json!({"op": "unate", "a": 0, "i": v, "f": "pos"}));
                    ops.push(json!({"op": "unate", "a": 0, "i": v, "f": "neg"}));
                }
                eps.push(Episode { n, tys: "both", ops });
            }
        }
    }
    eps
}

// ---------------------------------------------------------------------------------------------
// C11

fn usize_arg(m: &mut serde_json::Map<String, Value>, name: &str, v: usize) {
    crate::exec::put_usize(m, name, v);
}

fn ctor_k(op: &str, d: usize, n: usize, k: usize) -> Value {
    let mut m = serde_json::Map::new();
    m.insert("op".into(), json!(op));
    m.insert("d".into(), json!(d));
    m.insert("n".into(), json!(n));
    usize_arg(&mut m, "k", k);
    Value::Object(m)
}

/// C11: named constructors
pub fn gen_c11(thorough: bool, seed: u64) -> Vec<Episode> {
    let mut eps = Vec::new();
    eps.push(Episode { n: 0, tys: "lut", ops: vec![json!({"op": "consts"})] });
    let mut r = rng(seed, 11);
    for n in 0..=14usize {
        let mut ops: Vec<Value> = Vec::new();
        for op in ["zero", "one", "parity", "majority"] {
            ops.push(json!({"op": op, "d": 0, "n": n}));
        }
        ops.push(json!({"op": "default", "d": 1, "n": n}));
        eps.push(Episode { n, tys: tys_for(n), ops });
        let vars: Vec<usize> = if n <= 12 || thorough { (0..n).collect() } else { vec![0, 5, 6, n - 1] };
        let mut ops: Vec<Value> = Vec::new();
        for i in vars {
            ops.push(json!({"op": "nth_var", "d": 0, "n": n, "i": i}));
        }
        if !ops.is_empty() {
            eps.push(Episode { n, tys: tys_for(n), ops });
        }
        let mut ks: Vec<usize> = (0..=n + 2).collect();
        ks.extend([63, 64, 65, 127, 128, usize::MAX, usize::MAX - 1, 1usize << 32]);
        if n >= 13 && !thorough {
            ks = vec![0, 1, n / 2, n, n + 1, 64, usize::MAX];
        }
        for chunk in ks.chunks(6) {
            let mut ops: Vec<Value> = Vec::new();
            for &k in chunk {
                ops.push(ctor_k("threshold", 0, n, k));
                ops.push(ctor_k("equals", 1, n, k));
            }
            eps.push(Episode { n, tys: tys_for(n), ops });
        }
        // count masks: all of them for small n, structured + random 64-bit above
        let mut cs: Vec<u64> = Vec::new();
        if n <= 5 || (thorough && n <= 7) {
            for c in 0..(1u64 << (n + 1)) {
                cs.push(c);
            }
        } else {
            for k in 0..=n {
                cs.push(1u64 << k);
            }
            cs.push(0);
            let all = (1u64 << (n + 1)) - 1;
            cs.push(all);
            cs.push(0xaaaa_aaaa_aaaa_aaaa & all);
            // every count but one (in particular: every count but n, every count but 0)
            for k in 0..=n {
                cs.push(all ^ (1u64 << k));
                if k % 3 == 0 {
                    cs.push((all ^ (1u64 << k)) | (r.gen::<u64>() & !all));
                }
            }
            // all counts below / above a threshold
            for k in 1..=n {
                if k % 2 == 1 || thorough {
                    cs.push((1u64 << k) - 1);
                    cs.push(all & !((1u64 << k) - 1));
                }
            }
        }
        let nrand = if thorough { 12 } else { 3 };
        for _ in 0..nrand {
            cs.push(r.gen::<u64>());
            cs.push(r.gen::<u64>() & ((1u64 << (n + 1)) - 1));
        }
        cs.push(!0u64);
        cs.push(1u64 << 63);
        if n >= 13 && !thorough {
            cs.truncate(6);
        }
        for chunk in cs.chunks(8) {
            let mut ops: Vec<Value> = Vec::new();
            for &c in chunk {
                ops.push(json!({"op": "symmetric", "d": 0, "n": n, "cb": crate::exec::bits_of(c), "c_s": c.to_string()}));
            }
            eps.push(Episode { n, tys: tys_for(n), ops });
        }
    }
    // beyond 16 variables (dynamic Lut): a count can exceed 16 there - wherever a count mask, a popcount table
    // or a loop bound was sized for 'small' tables it shows only here
    for n in if thorough { vec![15usize, 16, 17, 18] } else { vec![17usize] } {
        let mut ops: Vec<Value> = vec![json!({"op": "parity", "d": 0, "n": n}), json!({"op": "majority", "d": 0, "n": n})];
        ops.push(ctor_k("equals", 0, n, n));
        ops.push(ctor_k("equals", 0, n, n - 1));
        ops.push(ctor_k("threshold", 0, n, n - 1));
        if thorough {
            ops.push(ctor_k("equals", 0, n, 1));
            ops.push(ctor_k("threshold", 0, n, n / 2 + 1));
            let c: u64 = r.gen::<u64>() | (1 << n) | (1 << (n - 1));
            ops.push(json!({"op": "symmetric", "d": 0, "n": n, "cb": crate::exec::bits_of(c), "c_s": c.to_string()}));
            ops.push(json!({"op": "nth_var", "d": 0, "n": n, "i": n - 1}));
        }
        for op in ops {
            eps.push(Episode { n, tys: "lut", ops: vec![op] });
        }
    }
    eps
}

// ---------------------------------------------------------------------------------------------
// C07

fn popcount(m: usize) -> usize {
    m.count_ones() as usize
}

/// Families of functions with heavy sub-function sharing
fn bdd_family(n: usize, r: &mut rand::rngs::StdRng, kind: usize) -> Vec<Vec<usize>> {
    let d = dom(n);
    match kind {
        // random functions
        0 => (0..r.gen_range(1..=4)).map(|_| random_on(n, r)).collect(),
        // adder bits: a = low half of the variables, b = high half
        1 => {
            let h = n / 2;
            let sum = |m: usize| (m & ((1 << h) - 1)) + (m >> h);
            (0..4usize).map(|bit| on_from_fn(n, |m| (sum(m) >> bit) & 1 == 1)).collect()
        }
        // symmetric family: thresholds and parity
        2 => vec![
            on_from_fn(n, |m| popcount(m) >= n / 2),
            on_from_fn(n, |m| popcount(m) >= (n + 1) / 2 + 1),
            on_from_fn(n, |m| popcount(m) % 2 == 1),
            on_from_fn(n, |m| popcount(m) == n / 3),
        ],
        // a function with its cofactors, a shifted copy and complements in the same list
        3 => {
            let f = random_on(n, r);
            let mut v = vec![f.clone(), complement(n, &f)];
            if n >= 1 {
                let top = n - 1;
                v.push(indep(n, &f, top));
                let i = r.gen_range(0..n);
                v.push(on_from_fn(n, |m| f.binary_search(&(m ^ (1 << i))).is_ok()));
            }
            v
        }
        // x_h ? g : !g with g a non-literal function of the lower variables (complement sharing above the word boundary)
        4 => {
            if n < 3 {
                return vec![random_on(n, r)];
            }
            let h = if n > 7 { r.gen_range(6..n) } else { n - 1 };
            let glow = random_on(h, r);
            let g = on_from_fn(n, |m| glow.binary_search(&(m & ((1 << h) - 1))).is_ok());
            let f = on_from_fn(n, |m| {
                let gv = g.binary_search(&m).is_ok();
                if (m >> h) & 1 == 1 { gv } else { !gv }
            });
            vec![f, g]
        }
        // mux tree: the top variables select one of the low variables
        5 => {
            if n < 3 {
                return vec![random_on(n, r)];
            }
            let s = if n >= 6 { 2 } else { 1 };
            let low = n - s;
            let f = on_from_fn(n, |m| {
                let sel = (m >> low) % low.max(1);
                (m >> sel) & 1 == 1
            });
            vec![f.clone(), on_from_fn(n, |m| f.binary_search(&m).is_ok() ^ (popcount(m) % 2 == 1))]
        }
        // sparse / single-minterm and literal-like functions
        6 => vec![sparse_on(n, r, 2), on_from_fn(n, |m| m & 1 == 1), complement(n, &on_from_fn(n, |m| (m >> (n.max(1) - 1)) & 1 == 1)), vec![], (0..d).collect()],
        // word-periodic and "equal in every word but one"
        7 => {
            let t = structured(n, r);
            let k = t.len();
            vec![t[k - 4].clone(), t[k - 5 % k].clone(), t[k - 3].clone()]
        }
        // multi-word sub-tables that share their first 64-bit word but differ later, laid out
        // A .. B .. A .. !A along the upper variables (several functions, or one larger function)
        8 => {
            if n < 8 {
                return vec![random_on(n, r)];
            }
            let l = r.gen_range(7..n.min(10)); // leaf variables
            let a = random_on(l, r);
            let hi_bit = 64 + r.gen_range(0..(dom(l) - 64));
            let b = toggle(&a, hi_bit);
            let c = toggle(&toggle(&a, 64 + r.gen_range(0..(dom(l) - 64))), r.gen_range(0..64));
            let na = complement(l, &a);
            let leaves = [a, b, c, na];
            let slots = dom(n - l);
            let mk = |pat: &[usize]| -> Vec<usize> {
                on_from_fn(n, |m| leaves[pat[(m >> l) % pat.len()]].binary_search(&(m & (dom(l) - 1))).is_ok())
            };
            if slots >= 4 && r.gen() {
                vec![mk(&[0, 1, 0, 3]), mk(&[1, 0, 2, 1])]
            } else {
                vec![mk(&[0, 1]), mk(&[0, 3]), mk(&[1, 2])]
            }
        }
        // x_a & g with a at or above the word boundary and g over variables on both sides of it
        _ => {
            if n < 8 {
                return vec![random_on(n, r)];
            }
            let a = r.gen_range(6..n - 1);
            let b = r.gen_range(a + 1..n);
            let c = r.gen_range(0..6);
            let kind = r.gen_range(0..3);
            let f = on_from_fn(n, |m| {
                let xa = (m >> a) & 1 == 1;
                let xb = (m >> b) & 1 == 1;
                let xc = (m >> c) & 1 == 1;
                xa && match kind { 0 => xb ^ xc, 1 => xb || xc, _ => xb && !xc }
            });
            let g = on_from_fn(n, |m| ((m >> a) & 1 == 1) && ((m >> c) & 1 == 1));
            vec![f, g]
        }
    }
}

/// C07: bdd_complexity on lists of 0..4 functions (order, duplicates and complements varied)
pub fn gen_c07(thorough: bool, seed: u64) -> Vec<Episode> {
    let mut eps = Vec::new();
    let mut r = rng(seed, 7);
    for n in 0..=11usize {
        let rounds = if thorough { if n >= 10 { 12 } else { 30 } } else if n >= 10 { 2 } else if n >= 8 { 4 } else { 8 };
        // the empty list
        eps.push(Episode { n, tys: tys_for(n), ops: vec![json!({"op": "bdd", "xs": []})] });
        let extra = if n >= 8 { if thorough { 12 } else { 4 } } else { 0 };
        for round in 0..rounds + extra {
            let kind = if round >= rounds { 8 + (round - rounds) % 2 } else { round % 10 };
            let mut fam = bdd_family(n, &mut r, kind);
            fam.truncate(4);
            let mut ops: Vec<Value> = Vec::new();
            for (s, f) in fam.iter().enumerate() {
                ops.push(load(s, n, f));
            }
            let k = fam.len();
            let all: Vec<usize> = (0..k).collect();
            ops.push(json!({"op": "bdd", "xs": all}));
            // single functions, reversed order, duplicates
            ops.push(json!({"op": "bdd", "xs": [r.gen_range(0..k)]}));
            let mut rev = all.clone();
            rev.reverse();
            rev.push(r.gen_range(0..k));
            ops.push(json!({"op": "bdd", "xs": rev}));
            // complement one of the listed functions (via the library's own `!`, a setup step here)
            let c = r.gen_range(0..k);
            ops.push(json!({"op": "logic", "g": "not", "f": "op_ref", "a": c, "b": c, "d": 5}));
            let mut withc: Vec<usize> = all.iter().map(|&x| if x == c { 5 } else { x }).collect();
            ops.push(json!({"op": "bdd", "xs": withc.clone()}));
            withc.push(c);
            ops.push(json!({"op": "bdd", "xs": withc}));
            eps.push(Episode { n, tys: tys_for(n), ops });
        }
    }
    // exhaustive: every single function of up to 3 variables (4 in the thorough tier: sampled pairs too)
    let max_exh = if thorough { 4 } else { 3 };
    for n in 0..=max_exh {
        let total: u64 = 1u64 << (1u64 << n);
        let mut ops: Vec<Value> = Vec::new();
        for f in 0..total {
            let on: Vec<usize> = (0..dom(n)).filter(|&m| (f >> m) & 1 == 1).collect();
            ops.push(load(0, n, &on));
            ops.push(json!({"op": "bdd", "xs": [0]}));
            if f % 7 == 0 {
                let g = r.gen_range(0..total);
                let on2: Vec<usize> = (0..dom(n)).filter(|&m| (g >> m) & 1 == 1).collect();
                ops.push(load(1, n, &on2));
                ops.push(json!({"op": "bdd", "xs": [0, 1]}));
            }
            if ops.len() > 60 {
                eps.push(Episode { n, tys: "both", ops });
                ops = Vec::new();
            }
        }
        if !ops.is_empty() {
            eps.push(Episode { n, tys: "both", ops });
        }
    }
    // long lists (the same few functions listed hundreds or thousands of times): whatever the implementation
    // does per batch or per group of listed functions, shared nodes are counted once
    for n in [3usize, 7, 8, 9, 10, 11] {
        let tables = structured(n, &mut r);
        let blocks = if n <= 6 { 1 } else { 1usize << (n - 6) };
        let mut ops = Vec::new();
        for s in 0..3 {
            ops.push(load(s, n, &tables[r.gen_range(0..tables.len())]));
        }
        for len in [65usize, 4096 / blocks + 1, 2 * (4096 / blocks) + 3] {
            if len > 5000 && !thorough {
                continue;
            }
            let xs: Vec<usize> = (0..len).map(|k| k % 3).collect();
            ops.push(json!({"op": "bdd", "xs": xs}));
        }
        eps.push(Episode { n, tys: tys_for(n), ops });
    }
    eps
}

// ---------------------------------------------------------------------------------------------
// C08

pub const REL_FORMS: [&str; 10] = ["cmp", "pcmp", "lt", "le", "gt", "ge", "eq", "ne", "max", "min"];

fn rel(a: usize, b: usize, f: &str) -> Value {
    json!({"op": "rel", "a": a, "b": b, "f": f})
}

/// C08: ordering observations; complete iterator runs; hooked successor steps
pub fn gen_c08(thorough: bool, seed: u64) -> Vec<Episode> {
    let mut eps = Vec::new();
    let mut r = rng(seed, 8);
    for n in 0..=12usize {
        let tables = structured(n, &mut r);
        let npairs = if thorough { 40 } else if n >= 11 { 6 } else { 12 };
        for p in 0..npairs {
            let a = tables[r.gen_range(0..tables.len())].clone();
            let b = match p % 6 {
                // differ in exactly one assignment (often in a low word while high words are equal, and vice versa)
                0 => toggle(&a, r.gen_range(0..dom(n))),
                1 => toggle(&toggle(&a, 0), dom(n) - 1),
                2 => tables[r.gen_range(0..tables.len())].clone(),
                // equal in the upper words, independent below (several low words differ, in both directions)
                3 | 4 => {
                    let cut = if dom(n) > 128 { 64 * r.gen_range(2..=dom(n) / 64 - 1) } else { dom(n) / 2 };
                    let low = random_on(n, &mut r);
                    on_from_fn(n, |m| if m >= cut { a.binary_search(&m).is_ok() } else { low.binary_search(&m).is_ok() })
                }
                _ => random_on(n, &mut r),
            };
            let c = if p % 2 == 0 { toggle(&b, r.gen_range(0..dom(n))) } else { random_on(n, &mut r) };
            let mut ops = vec![load(0, n, &a), load(1, n, &b), load(2, n, &c)];
            let nf = if n >= 11 && !thorough { 3 } else { 10 };
            for k in 0..nf {
                let f = REL_FORMS[(k + p) % 10];
                ops.push(rel(0, 1, f));
                ops.push(rel(1, 0, f));
                ops.push(rel(1, 2, f));
                ops.push(rel(0, 2, f));
            }
            ops.push(rel(0, 0, "cmp"));
            ops.push(rel(1, 1, "le"));
            eps.push(Episode { n, tys: tys_for(n), ops });
        }
    }
    // cross-size comparisons (dynamic Lut only): size dominates the table
    for n1 in 0..=9usize {
        for n2 in 0..=9usize {
            if n1 == n2 || (!thorough && (n1 + 2 * n2) % 3 != 0) {
                continue;
            }
            let a = if r.gen() { (0..dom(n1)).collect() } else { random_on(n1, &mut r) };
            let b = if r.gen() { vec![] } else { random_on(n2, &mut r) };
            let mut ops = vec![load(0, n1, &a), load(1, n2, &b)];
            for f in REL_FORMS {
                ops.push(rel(0, 1, f));
                ops.push(rel(1, 0, f));
            }
            // the same stored words under two sizes: the smaller function padded, and the constants
            let small = n1.min(n2);
            let c = random_on(small, &mut r);
            for (ta, tb) in [(c.clone(), c.clone()), (vec![], vec![]), ((0..dom(small)).collect::<Vec<usize>>(), (0..dom(small)).collect::<Vec<usize>>())] {
                ops.push(load(2, n1, &ta));
                ops.push(load(3, n2, &tb));
                for f in REL_FORMS {
                    ops.push(rel(2, 3, f));
                    ops.push(rel(3, 2, f));
                }
            }
            eps.push(Episode { n: n1, tys: "lut", ops });
        }
    }
    // complete runs of the public iterator
    let max_it = if thorough { 4 } else { 3 };
    for n in 0..=max_it {
        let total: usize = 1usize << (1usize << n);
        let mut ops = vec![json!({"op": "iter_start", "n": n})];
        // every item, then one more call: the iterator must have terminated
        for _ in 0..total + 1 {
            ops.push(json!({"op": "iter_next", "d": 0}));
        }
        eps.push(Episode { n, tys: "both", ops });
    }
    // a complete run for n = 5 (2^32 items): only counted, by the fixed-size type (a few seconds);
    // the dynamic type too in the thorough tier
    eps.push(Episode { n: 5, tys: if thorough { "both" } else { "lutn" }, ops: vec![json!({"op": "iter_count", "n": 5, "d": 0})] });
    for n in 0..=4usize {
        eps.push(Episode { n, tys: "both", ops: vec![json!({"op": "iter_count", "n": n, "d": 0})] });
    }
    // first steps of the iterator for larger sizes
    for n in 5..=12usize {
        let mut ops = vec![json!({"op": "iter_start", "n": n})];
        for _ in 0..40 {
            ops.push(json!({"op": "iter_next", "d": 0}));
        }
        eps.push(Episode { n, tys: "both", ops });
    }
    // hooked successor from arbitrary starting tables
    let max_h = if thorough { 12 } else { 9 };
    for n in 0..=max_h {
        let d = dom(n);
        let mut starts: Vec<Vec<usize>> = structured(n, &mut r);
        // low words all ones: k full low words, then a word with a low run of ones
        if d > 64 {
            for k in 1..(d / 64) {
                if k > 3 && k != d / 64 - 1 && !thorough {
                    continue;
                }
                let run = r.gen_range(0..64);
                let hi = random_on(n, &mut r);
                starts.push(on_from_fn(n, |m| m < 64 * k + run || (m > 64 * k + run && hi.binary_search(&m).is_ok())));
                starts.push(on_from_fn(n, |m| m < 64 * k));
                starts.push(on_from_fn(n, |m| m < 64 * k || m >= 64 * (k + 1)));
            }
        }
        starts.push((0..d).collect());
        starts.push((0..d - 1).collect());
        starts.push((1..d).collect());
        for s in starts {
            let mut ops = vec![load(0, n, &s)];
            for _ in 0..3 {
                ops.push(json!({"op": "vnext", "a": 0}));
            }
            eps.push(Episode { n, tys: tys_for(n), ops });
        }
    }
    eps.extend(iter_programs(thorough, &mut r));
    eps
}

/// Programs on the iterator object itself: nth (which skip / step_by are built on), count, last, size_hint
pub fn iter_programs(thorough: bool, r: &mut rand::rngs::StdRng) -> Vec<Episode> {
    let mut eps = Vec::new();
    let prog = |n: usize, ks: Vec<usize>, tail: &str| json!({"op": "iter_prog", "n": n, "ks": ks, "tail": tail});
    for n in 0..=4usize {
        let t = 1usize << (1usize << n); // number of functions
        let mut ops = Vec::new();
        for tail in ["count", "last", "hint", "none", "fold", "min", "max"] {
            ops.push(prog(n, vec![], tail));
            ops.push(prog(n, vec![0, 0, 0], tail));
            for k in [t - 2, t - 1, t, t + 1, 2 * t, 2 * t + 3] {
                ops.push(prog(n, vec![k], tail));
                ops.push(prog(n, vec![k, 0, 0], tail));
            }
            ops.push(prog(n, vec![t / 2, t / 2 - 1, 0], tail));
            ops.push(prog(n, vec![t / 2, t / 2, 0], tail));
        }
        // step_by(s): nth(0), then nth(s - 1) until the end and beyond
        for s in if n <= 3 { vec![2usize, 3, 5, 7] } else { vec![4099, 30000] } {
            let m = t / s + 3;
            let mut ks = vec![0];
            ks.extend(std::iter::repeat(s - 1).take(m));
            ops.push(prog(n, ks, "count"));
        }
        for _ in 0..(if thorough { 40 } else { 8 }) {
            let ks: Vec<usize> = (0..r.gen_range(1..5)).map(|_| r.gen_range(0..=t / 2)).collect();
            ops.push(prog(n, ks, ["count", "last", "hint", "none"][r.gen_range(0..4)]));
        }
        eps.push(Episode { n, tys: "both", ops });
    }
    for n in 5..=8usize {
        let mut ops = vec![prog(n, vec![5, 0, 100], "hint"), prog(n, vec![0, 63, 0, 64, 1000], "none")];
        if n == 5 {
            ops.push(prog(n, vec![1 << 20, 0, 3], "hint"));
            if thorough {
                ops.push(prog(n, vec![1 << 24, (1 << 24) - 1], "none"));
            }
        }
        eps.push(Episode { n, tys: "both", ops });
    }
    eps
}

// ---------------------------------------------------------------------------------------------
// C09

pub const TEXT_FORMS: [&str; 6] = ["hex", "bin", "display", "to_string", "lowerhex", "binary"];
/// the formatting traits called with formatter flags: only compared between the two table types (C10)
pub const TEXT_FORMS_FLAGS: [&str; 9] = ["display_w", "display_f", "display_p", "display_0", "lowerhex_w", "lowerhex_alt", "binary_w", "binary_alt", "binary_p"];

fn hex_width(n: usize) -> usize {
    if n <= 2 { 1 } else { 1 << (n - 2) }
}

/// the reference rendering used only to build *inputs* for the parser (the expected results
/// are computed by the specification)
fn hex_bytes(n: usize, on: &[usize]) -> Vec<u8> {
    let w = hex_width(n);
    let mut nib = vec![0u8; w];
    for &m in on {
        nib[m / 4] |= 1 << (m % 4);
    }
    nib.iter().rev().map(|&v| b"0123456789abcdef"[v as usize]).collect()
}

fn from_hex(d: usize, n: usize, s: &[u8]) -> Value {
    json!({"op": "from_hex", "d": d, "n": n, "s": s})
}

/// C09: printing through every formatting entry point; parsing of printed strings, of their
/// single-byte mutations, of wrong lengths, and exhaustively over a byte alphabet for small n
pub fn gen_c09(thorough: bool, seed: u64) -> Vec<Episode> {
    let mut eps = Vec::new();
    let mut r = rng(seed, 9);
    let bad: [u8; 12] = [b'+', b'-', b' ', b'g', b'x', b'G', b'/', b':', b'@', b'`', 0, 0x7f];
    for n in 0..=12usize {
        let tables = structured(n, &mut r);
        let cnt = if thorough { tables.len() } else if n >= 10 { 4 } else { 8 };
        for t in tables.iter().rev().take(cnt) {
            let mut ops = vec![load(0, n, t)];
            for f in TEXT_FORMS {
                if n >= 10 && !thorough && (f == "to_string" || f == "lowerhex") {
                    continue;
                }
                ops.push(json!({"op": "text", "a": 0, "f": f}));
            }
            // parse the printed form back
            let h = hex_bytes(n, t);
            ops.push(from_hex(1, n, &h));
            // upper-case variant
            let up: Vec<u8> = h.iter().map(|b| b.to_ascii_uppercase()).collect();
            if up != h {
                ops.push(from_hex(2, n, &up));
            }
            eps.push(Episode { n, tys: tys_for(n), ops });
        }
        // mutations of a printed string
        let base = hex_bytes(n, &random_on(n, &mut r));
        let w = base.len();
        let mut muts: Vec<Vec<u8>> = Vec::new();
        let mut positions: Vec<usize> = vec![0, w - 1, w / 2];
        if w > 16 {
            positions.extend([15, 16, 17, w - 16, w - 17]);
        }
        for _ in 0..(if thorough { 8 } else { 2 }) {
            positions.push(r.gen_range(0..w));
        }
        positions.sort();
        positions.dedup();
        for &p in &positions {
            for &b in &bad {
                if !thorough && w > 64 && (p + b as usize) % 3 != 0 {
                    continue;
                }
                let mut s = base.clone();
                s[p] = b;
                muts.push(s);
            }
            // a 2-byte UTF-8 character replacing two digits (also straddling 16-byte chunk boundaries)
            if p + 1 < w {
                let mut s = base.clone();
                s[p] = 0xc3;
                s[p + 1] = 0xa9;
                muts.push(s);
            }
            // a 2-byte character replacing one digit (length one too many in bytes)
            let mut s = base.clone();
            s.splice(p..p + 1, [0xc3u8, 0xa9]);
            muts.push(s);
        }
        // wrong lengths 0 .. w + 2
        let lens: Vec<usize> = if w <= 16 || thorough { (0..=w + 2).collect() } else { vec![0, 1, w - 16, w - 1, w + 1, w + 2, w + 16, 2 * w] };
        for l in lens {
            if l == w {
                continue;
            }
            let s: Vec<u8> = (0..l).map(|k| base[k % w]).collect();
            muts.push(s);
        }
        // signs in front of a shorter number, per chunk
        for k in 0..(w / 16).max(1) {
            let mut s = base.clone();
            s[(k * 16).min(w - 1)] = b'+';
            muts.push(s);
        }
        // digits too large for the size
        if n < 2 {
            for b in b"0123456789abcdefABCDEF" {
                muts.push(vec![*b]);
            }
        }
        for chunk in muts.chunks(20) {
            let ops: Vec<Value> = chunk.iter().map(|s| from_hex(0, n, s)).collect();
            eps.push(Episode { n, tys: tys_for(n), ops });
        }
    }
    // multi-byte characters: every 2-byte UTF-8 character as the whole string for n = 3 (width 2),
    // and 2/3/4-byte characters mixed with digits for larger widths (a decoder that masks or
    // truncates bytes may map them onto hex digits)
    {
        let mut strs: Vec<(usize, Vec<u8>)> = Vec::new();
        for lead in 0xc2u8..=0xdf {
            for cont in 0x80u8..=0xbf {
                strs.push((3, vec![lead, cont]));
            }
        }
        for lead in 0xc2u8..=0xdf {
            for cont in [0x80u8, 0xb0, 0xb6, 0xb9, 0xa1, 0xbf] {
                strs.push((4, vec![b'1', lead, cont, b'f']));
            }
        }
        // 3-byte (E1..EC lead) and 4-byte (F1..F3 lead) characters: always valid with 80..BF continuations
        for lead in 0xe1u8..=0xec {
            for c1 in [0x80u8, 0xb0, 0xb5, 0xb9, 0xbf] {
                for c2 in [0x80u8, 0xb1, 0xb9] {
                    strs.push((4, vec![lead, c1, c2, b'0']));
                    strs.push((5, vec![b'0', b'1', lead, c1, c2, b'a', b'b', b'c']));
                }
            }
        }
        for lead in 0xf1u8..=0xf3 {
            for c in [0x80u8, 0xb0, 0xb9] {
                strs.push((4, vec![lead, c, 0xb1, 0xb2]));
                strs.push((5, vec![b'7', b'7', lead, 0xb3, c, 0xb4, b'7', b'7']));
            }
        }
        for n in [3usize, 4, 5] {
            let of_n: Vec<&Vec<u8>> = strs.iter().filter(|(m, _)| *m == n).map(|(_, s)| s).collect();
            for chunk in of_n.chunks(80) {
                let ops: Vec<Value> = chunk.iter().map(|s| from_hex(0, n, s)).collect();
                eps.push(Episode { n, tys: "both", ops });
            }
        }
        // aliasing characters inside multi-word strings, at and around a chunk boundary
        for n in [7usize, 8] {
            let base = hex_bytes(n, &random_on(n, &mut r));
            let mut ops = Vec::new();
            for pos in [0usize, 14, 15, 16, 30] {
                for (l, c) in [(0xc3u8, 0xb6u8), (0xc2, 0xb0), (0xc5, 0xb9), (0xc3, 0xa9)] {
                    let mut s = base.clone();
                    s[pos] = l;
                    s[pos + 1] = c;
                    ops.push(from_hex(0, n, &s));
                }
            }
            eps.push(Episode { n, tys: "both", ops });
        }
    }
    // exhaustive over an alphabet, n <= 3, all lengths up to width + 1
    let alpha: Vec<u8> = if thorough { b"0123456789abcdefAF+- gxG".to_vec() } else { b"0137af9cAF+- gx".to_vec() };
    for n in 0..=3usize {
        let w = hex_width(n);
        let mut all: Vec<Vec<u8>> = vec![vec![]];
        let mut cur: Vec<Vec<u8>> = vec![vec![]];
        for _ in 0..=w {
            let mut nxt = Vec::new();
            for s in &cur {
                for &b in &alpha {
                    let mut t = s.clone();
                    t.push(b);
                    nxt.push(t);
                }
            }
            all.extend(nxt.iter().cloned());
            cur = nxt;
        }
        for chunk in all.chunks(60) {
            let ops: Vec<Value> = chunk.iter().map(|s| from_hex(0, n, s)).collect();
            eps.push(Episode { n, tys: "both", ops });
        }
    }
    // every single-byte character (0..=127) in place of one digit of a valid string: only the 22 hex digits may pass
    for n in [2usize, 4, 7] {
        let w = hex_width(n);
        let mut ops = Vec::new();
        for b in 0u8..128 {
            let mut sv = valid_hex(n, &mut r);
            let pos = (b as usize * 7) % w;
            sv[pos] = b;
            ops.push(from_hex(0, n, &sv));
        }
        eps.push(Episode { n, tys: tys_for(n), ops });
    }
    // a formatting call that fails half-way (a bounded sink), then the other entry points on other tables
    for n in [0usize, 3, 6, 7, 9, 12] {
        let t = structured(n, &mut r);
        let mut ops = vec![load(0, n, &t[r.gen_range(0..t.len())]), load(1, n, &random_on(n, &mut r))];
        for (k, f) in ["display", "lowerhex", "binary"].iter().enumerate() {
            ops.push(json!({"op": "text_fail", "a": 0, "f": f, "limit": 2 + 3 * k}));
            for g in TEXT_FORMS {
                ops.push(json!({"op": "text", "a": 1, "f": g}));
            }
        }
        eps.push(Episode { n, tys: tys_for(n), ops });
    }
    // characters outside ASCII that case mapping, width folding or digit classification could turn into hex digits:
    // ligatures (U+FB00 'ff' upper-cases to "FF"), fullwidth digits and letters, other decimal digits, Kelvin / long s;
    // placed so that the byte length, the character count or the length after case mapping equals the expected width
    {
        let specials: [(char, usize); 12] = [('\u{fb00}', 2), ('\u{fb01}', 2), ('\u{fb03}', 3), ('\u{ff11}', 1), ('\u{ff21}', 1), ('\u{ff46}', 1),
                                             ('\u{0661}', 1), ('\u{212a}', 1), ('\u{017f}', 1), ('\u{00df}', 2), ('\u{0130}', 3), ('\u{2160}', 1)];
        for n in [3usize, 4, 5, 7, 8] {
            let w = hex_width(n);
            let mut ops = Vec::new();
            for (c, mapped) in specials {
                let cb = c.len_utf8();
                for target in [cb, 1usize, mapped] {
                    // c counts as `target` positions; the rest are valid digits
                    if target > w {
                        continue;
                    }
                    for at_end in [false, true] {
                        let digits = valid_hex(n, &mut r);
                        let rest: String = digits[..w - target].iter().map(|&b| b as char).collect();
                        let sv = if at_end { format!("{}{}", rest, c) } else { format!("{}{}", c, rest) };
                        ops.push(from_hex(0, n, sv.as_bytes()));
                    }
                }
            }
            eps.push(Episode { n, tys: tys_for(n), ops });
        }
    }
    eps
}

// ---------------------------------------------------------------------------------------------
// Random call histories (C02, C10, C17's valid workload)

pub struct HistCfg {
    pub len: usize,
    pub queries: bool,    // decomp / unate / text / bdd / info / value observations
    pub relforms: &'static [&'static str],
    pub canon_max_n: usize,
    pub allow_random: bool,
    pub reload: bool,
}

fn valid_hex(n: usize, r: &mut rand::rngs::StdRng) -> Vec<u8> {
    let w = hex_width(n);
    (0..w)
        .map(|_| {
            let v: u8 = match n {
                0 => r.gen_range(0..2),
                1 => r.gen_range(0..4),
                _ => r.gen_range(0..16),
            };
            let c = b"0123456789abcdef"[v as usize];
            c
        })
        .collect()
}

fn random_ctor(n: usize, d: usize, r: &mut rand::rngs::StdRng, cfg: &HistCfg) -> Value {
    loop {
        match r.gen_range(0..12) {
            0 => return json!({"op": "zero", "d": d, "n": n}),
            1 => return json!({"op": "one", "d": d, "n": n}),
            2 => {
                if n > 0 {
                    return json!({"op": "nth_var", "d": d, "n": n, "i": r.gen_range(0..n)});
                }
            }
            3 => return json!({"op": "parity", "d": d, "n": n}),
            4 => return json!({"op": "majority", "d": d, "n": n}),
            5 => return ctor_k("threshold", d, n, r.gen_range(0..=n + 2)),
            6 => return ctor_k("equals", d, n, r.gen_range(0..=n + 2)),
            7 => {
                let c: u64 = r.gen::<u64>() & ((1u64 << (n + 1)) - 1);
                return json!({"op": "symmetric", "d": d, "n": n, "cb": crate::exec::bits_of(c), "c_s": c.to_string()});
            }
            8 => return from_hex(d, n, &valid_hex(n, r)),
            9 => {
                if cfg.allow_random {
                    return json!({"op": "random", "d": d, "n": n});
                }
            }
            _ => return load(d, n, &random_on(n, r)),
        }
    }
}

pub fn history(n: usize, r: &mut rand::rngs::StdRng, cfg: &HistCfg) -> Vec<Value> {
    let mut ops: Vec<Value> = Vec::new();
    let nslots = 5usize;
    for d in 0..3 {
        ops.push(random_ctor(n, d, r, cfg));
    }
    let mut filled = 3usize; // slots 0..filled are defined
    let mut step = 0;
    while step < cfg.len {
        step += 1;
        let a = r.gen_range(0..filled);
        let b = r.gen_range(0..filled);
        let d = r.gen_range(0..(filled + 1).min(nslots));
        let mut wrote = Some(d);
        match r.gen_range(0..17) {
            0 | 1 => {
                let g = ["not", "and", "or", "xor"][r.gen_range(0..4)];
                let f = if g == "not" { NOT_FORMS[r.gen_range(0..4)] } else { BIN_FORMS[r.gen_range(0..8)] };
                if is_inplace(f) {
                    ops.push(json!({"op": "logic", "g": g, "f": f, "a": a, "b": b, "d": a}));
                    wrote = None;
                } else {
                    ops.push(json!({"op": "logic", "g": g, "f": f, "a": a, "b": b, "d": d}));
                }
            }
            2 => {
                if n == 0 {
                    continue;
                }
                let inpl = r.gen::<bool>();
                ops.push(json!({"op": "flip", "f": if inpl {"inplace"} else {"copy"}, "a": a, "d": if inpl {a} else {d}, "i": r.gen_range(0..n)}));
                if inpl {
                    wrote = None;
                }
            }
            3 => {
                if n == 0 {
                    continue;
                }
                let inpl = r.gen::<bool>();
                ops.push(json!({"op": "swap", "f": if inpl {"inplace"} else {"copy"}, "a": a, "d": if inpl {a} else {d}, "i": r.gen_range(0..n), "j": r.gen_range(0..n)}));
                if inpl {
                    wrote = None;
                }
            }
            4 => {
                if n < 2 {
                    continue;
                }
                let inpl = r.gen::<bool>();
                ops.push(json!({"op": "swapadj", "f": if inpl {"inplace"} else {"copy"}, "a": a, "d": if inpl {a} else {d}, "i": r.gen_range(0..n - 1)}));
                if inpl {
                    wrote = None;
                }
            }
            5 => {
                if n == 0 {
                    continue;
                }
                let d1 = (d + 1) % (filled + 1).min(nslots);
                if d1 == d {
                    continue;
                }
                ops.push(json!({"op": "cofactors", "a": a, "d0": d, "d1": d1, "i": r.gen_range(0..n)}));
                filled = filled.max(d + 1).max(d1 + 1);
                wrote = None;
            }
            6 => {
                if n == 0 {
                    continue;
                }
                ops.push(json!({"op": "fromcof", "a": a, "b": b, "d": d, "i": r.gen_range(0..n)}));
            }
            7 => {
                let f = ["set", "unset", "val1", "val0"][r.gen_range(0..4)];
                ops.push(json!({"op": "setbit", "a": a, "m": r.gen_range(0..dom(n)), "f": f}));
                wrote = None;
            }
            8 => {
                ops.push(json!({"op": "vnext", "a": a}));
                wrote = None;
            }
            9 => {
                if n > cfg.canon_max_n {
                    continue;
                }
                let kind = ["p", "n", "npn"][r.gen_range(0..3)];
                ops.push(json!({"op": "canon", "kind": kind, "a": a, "d": d}));
            }
            10 => ops.push(random_ctor(n, d, r, cfg)),
            11 | 12 => {
                if cfg.relforms.is_empty() {
                    continue;
                }
                let f = cfg.relforms[r.gen_range(0..cfg.relforms.len())];
                ops.push(rel(a, b, f));
                wrote = None;
            }
            13 => {
                if !cfg.reload {
                    continue;
                }
                // the same function rebuilt from its values: must be indistinguishable from the original
                ops.push(json!({"op": "reload", "a": a, "d": 7}));
                for f in ["eq", "hasheq", "cmp", "ne"] {
                    ops.push(rel(a, 7, f));
                }
                wrote = None;
            }
            _ => {
                if !cfg.queries {
                    continue;
                }
                wrote = None;
                match r.gen_range(0..7) {
                    0 if n > 0 => ops.push(json!({"op": "decomp", "a": a, "i": r.gen_range(0..n)})),
                    1 if n > 0 => ops.push(json!({"op": "unate", "a": a, "i": r.gen_range(0..n), "f": if r.gen() {"pos"} else {"neg"}})),
                    2 => ops.push(json!({"op": "text", "a": a, "f": TEXT_FORMS[r.gen_range(0..6)]})),
                    3 => ops.push(json!({"op": "bdd", "xs": [a, b]})),
                    4 => ops.push(json!({"op": "info", "a": a})),
                    5 => ops.push(json!({"op": "value", "a": a, "m": r.gen_range(0..dom(n)), "f": if r.gen() {"value"} else {"get_bit"}})),
                    _ => ops.push(json!({"op": "bdd", "xs": [a]})),
                }
            }
        }
        if let Some(w) = wrote {
            filled = filled.max(w + 1);
        }
    }
    ops
}

/// C02: random histories over the whole table API; well-formedness of every value produced and
/// extensionality of ==, hash and Ordering::Equal
pub fn gen_c02(thorough: bool, seed: u64) -> Vec<Episode> {
    let mut eps = Vec::new();
    let mut r = rng(seed, 2);
    let cfg = HistCfg {
        len: 30,
        queries: false,
        relforms: &["eq", "ne", "cmp", "pcmp", "hasheq"],
        canon_max_n: 6,
        allow_random: true,
        reload: true,
    };
    let per_n = if thorough { 300 } else { 10 };
    for n in 0..=12usize {
        let k = if n >= 10 { per_n / 2 } else { per_n };
        for _ in 0..k.max(3) {
            let ops = history(n, &mut r, &cfg);
            eps.push(Episode { n, tys: tys_for(n), ops });
        }
        // systematic sweep for the sizes where a 64-bit word is only partially used (and the first
        // multi-word size): every operation with every in-range argument on dense tables, whose
        // results would show any bit shifted or complemented into positions >= 2^n
        if n <= 7 {
            let dense: Vec<Vec<usize>> = vec![(0..dom(n)).collect(), (0..dom(n)).filter(|&m| m != 0).collect(),
                                              (0..dom(n)).filter(|&m| m != dom(n) - 1).collect(), random_on(n, &mut r)];
            for t in &dense {
                let mut ops = vec![load(0, n, t), load(1, n, &dense[3])];
                for f in NOT_FORMS {
                    ops.push(json!({"op": "logic", "g": "not", "f": f, "a": 0, "b": 0, "d": if f == "inplace" {0} else {2}}));
                    if f == "inplace" {
                        ops.push(json!({"op": "logic", "g": "not", "f": f, "a": 0, "b": 0, "d": 0}));
                    }
                }
                for i in 0..n {
                    ops.push(json!({"op": "flip", "f": "copy", "a": 0, "d": 2, "i": i}));
                    ops.push(json!({"op": "flip", "f": "inplace", "a": 2, "d": 2, "i": i}));
                    ops.push(json!({"op": "cofactors", "a": 0, "d0": 3, "d1": 4, "i": i}));
                    ops.push(json!({"op": "fromcof", "a": 0, "b": 1, "d": 5, "i": i}));
                    for j in 0..n {
                        ops.push(json!({"op": "swap", "f": if (i + j) % 2 == 0 {"copy"} else {"inplace"}, "a": if (i + j) % 2 == 0 {0} else {2}, "d": 2, "i": i, "j": j}));
                    }
                    if i + 1 < n {
                        ops.push(json!({"op": "swapadj", "f": "copy", "a": 0, "d": 2, "i": i}));
                    }
                }
                for g in ["and", "or", "xor"] {
                    ops.push(json!({"op": "logic", "g": g, "f": "ref_ref", "a": 0, "b": 1, "d": 2}));
                }
                ops.push(json!({"op": "setbit", "a": 0, "m": dom(n) - 1, "f": "set"}));
                ops.push(json!({"op": "setbit", "a": 0, "m": dom(n) - 1, "f": "val0"}));
                ops.push(json!({"op": "vnext", "a": 0}));
                ops.push(json!({"op": "vnext", "a": 0}));
                if n <= 5 {
                    for kind in ["p", "n", "npn"] {
                        ops.push(json!({"op": "canon", "kind": kind, "a": 0, "d": 6}));
                    }
                }
                ops.push(json!({"op": "reload", "a": 0, "d": 7}));
                ops.push(rel(0, 7, "eq"));
                ops.push(rel(0, 7, "hasheq"));
                ops.push(rel(0, 7, "cmp"));
                eps.push(Episode { n, tys: tys_for(n), ops });
            }
            let mut ops: Vec<Value> = Vec::new();
            for op in ["zero", "one", "parity", "majority"] {
                ops.push(json!({"op": op, "d": 0, "n": n}));
            }
            for i in 0..n {
                ops.push(json!({"op": "nth_var", "d": 0, "n": n, "i": i}));
            }
            for k in 0..=n + 1 {
                ops.push(ctor_k("threshold", 0, n, k));
                ops.push(ctor_k("equals", 0, n, k));
            }
            ops.push(json!({"op": "symmetric", "d": 0, "n": n, "cb": (0..64).collect::<Vec<usize>>(), "c_s": u64::MAX.to_string()}));
            let w = hex_width(n);
            let top = match n { 0 => b'1', 1 => b'3', _ => b'f' };
            ops.push(from_hex(0, n, &vec![top; w]));
            ops.push(json!({"op": "random", "d": 0, "n": n}));
            ops.push(json!({"op": "iter_start", "n": n}));
            for _ in 0..3 {
                ops.push(json!({"op": "iter_next", "d": 0}));
            }
            eps.push(Episode { n, tys: tys_for(n), ops });
        }
        // Clone::clone_from into an existing table, of the same size (both types) and of other sizes (Lut)
        {
            let src = random_on(n, &mut r);
            let dst = random_on(n, &mut r);
            eps.push(Episode { n, tys: tys_for(n), ops: vec![load(0, n, &src), load(1, n, &dst), json!({"op": "clone_from", "a": 0, "d": 1}),
                                                             rel(0, 1, "eq"), rel(0, 1, "hasheq"), json!({"op": "reload", "a": 1, "d": 7}), rel(1, 7, "eq"), rel(1, 7, "cmp")] });
            for m in [0usize, 3, 5, 6, 7, 9, 12] {
                if m == n {
                    continue;
                }
                let other: Vec<usize> = if m > n { (0..dom(m)).collect() } else { random_on(m, &mut r) };
                eps.push(Episode { n, tys: "lut", ops: vec![load(0, m, &other), load(1, n, &dst), json!({"op": "clone_from", "a": 0, "d": 1}),
                                                            rel(0, 1, "eq"), rel(0, 1, "hasheq"), json!({"op": "reload", "a": 1, "d": 7}), rel(1, 7, "eq"), rel(1, 7, "cmp")] });
            }
        }
        // conversions Lut -> LutM -> Lut for every static size M (an Err is fine; an Ok must be well-formed)
        for t in [(0..dom(n)).collect::<Vec<usize>>(), random_on(n, &mut r), vec![dom(n) - 1]] {
            for m in 0..=12usize {
                if !thorough && m > 7 && n > 7 && (m + n) % 3 != 0 {
                    continue;
                }
                let mut ops = vec![load(0, n, &t), json!({"op": "conv_try", "a": 0, "d": 1, "n": m})];
                if m == n {
                    ops.extend([rel(1, 0, "eq"), json!({"op": "reload", "a": 1, "d": 7}), rel(1, 7, "eq"), rel(1, 7, "hasheq")]);
                }
                eps.push(Episode { n, tys: "lut", ops });
            }
        }
    }
    // the iterator driven through nth (skip / step_by), count, last: every table it hands out
    eps.extend(iter_programs(thorough, &mut r));
    // tables of DIFFERENT sizes (dynamic Lut): equality, hash and Ordering::Equal must tell them apart even when
    // their block words coincide (both sizes at most 6: the same function padded, the constants, a shared word)
    for n1 in 0..=8usize {
        for n2 in 0..=8usize {
            if n1 == n2 || (!thorough && (n1 + 2 * n2) % 3 == 0 && n1.max(n2) > 6) {
                continue;
            }
            let small = n1.min(n2);
            let a = random_on(small, &mut r);
            let mut ops = Vec::new();
            for (ta, tb) in [(a.clone(), a.clone()), (vec![], vec![]), ((0..dom(n1)).collect::<Vec<usize>>(), (0..dom(n2)).collect::<Vec<usize>>()),
                             (random_on(n1, &mut r), random_on(n2, &mut r))] {
                ops.push(load(0, n1, &ta));
                ops.push(load(1, n2, &tb));
                for f in ["eq", "ne", "cmp", "pcmp", "hasheq"] {
                    ops.push(rel(0, 1, f));
                    ops.push(rel(1, 0, f));
                }
            }
            eps.push(Episode { n: n1.max(n2), tys: "lut", ops });
        }
    }
    // the parser on every single digit for the sizes whose table is smaller than a digit (n = 0, 1), and on every
    // pair of digits for n = 2, 3: whatever it accepts must be a well-formed table
    for n in 0..=3usize {
        let w = hex_width(n);
        let mut ops = Vec::new();
        let digits = b"0123456789abcdefABCDEF";
        if w == 1 {
            for &d in digits.iter() {
                ops.push(from_hex(0, n, &[d]));
            }
        } else {
            for &d1 in digits.iter().step_by(3) {
                for &d2 in digits.iter().step_by(2) {
                    ops.push(from_hex(0, n, &[d1, d2]));
                }
            }
        }
        eps.push(Episode { n, tys: tys_for(n), ops });
    }
    eps
}

// ---------------------------------------------------------------------------------------------
// C17

fn with_usize(mut v: Value, name: &str, x: usize) -> Value {
    let m = v.as_object_mut().unwrap();
    crate::exec::put_usize(m, name, x);
    v
}

/// C17: invalid indices, assignments, operand sizes and slice lengths; plus a valid workload
/// whose results must be identical in both build profiles
pub fn gen_c17(thorough: bool, seed: u64) -> Vec<Episode> {
    let mut eps = Vec::new();
    let mut r = rng(seed, 17);
    // the multi-block sizes 7 and 8 are in both tiers: the index arithmetic of the kernels differs there
    // (strides 1 << (i - 6)), and a shift by 64 or more behaves differently with and without overflow checks
    let max_n = 8;
    for n in 0..=max_n {
        let bad_idx: Vec<usize> = if thorough || n >= 5 {
            let mut v: Vec<usize> = (n..=n + 70).collect();
            v.extend([usize::MAX, usize::MAX - 1, 1usize << 32, 1usize << 63]);
            v
        } else {
            let mut v = vec![n, n + 1, n + 2, n + 5, 31, 32, 58, 63, 64, 65, 69, 70, n + 64, n + 70, usize::MAX];
            v.retain(|&x| x >= n);
            v.sort();
            v.dedup();
            v
        };
        let d = dom(n);
        let bad_asg: Vec<usize> = if thorough {
            let mut v: Vec<usize> = (d..=d + 70).collect();
            v.extend([usize::MAX, 1usize << 32, 1usize << 63, d * 2, d * 64]);
            v
        } else {
            vec![d, d + 1, d + 63, d + 64, d + 70, 2 * d, 64 * d, usize::MAX]
        };
        let f0 = random_on(n, &mut r);
        let f1 = random_on(n, &mut r);
        let good = if n > 0 { r.gen_range(0..n) } else { 0 };
        let mut all: Vec<Value> = Vec::new();
        for &i in &bad_idx {
            all.push(with_usize(json!({"op": "nth_var", "d": 2, "n": n}), "i", i));
            for f in ["copy", "inplace"] {
                all.push(with_usize(json!({"op": "flip", "f": f, "a": 0, "d": if f == "copy" {2} else {0}}), "i", i));
                all.push(with_usize(json!({"op": "swapadj", "f": f, "a": 0, "d": if f == "copy" {2} else {0}}), "i", i));
                // one bad and one good index, both orders; both bad
                if n > 0 {
                    all.push(with_usize(json!({"op": "swap", "f": f, "a": 0, "d": if f == "copy" {2} else {0}, "j": good}), "i", i));
                    all.push(with_usize(json!({"op": "swap", "f": f, "a": 0, "d": if f == "copy" {2} else {0}, "i": good}), "j", i));
                }
                all.push(with_usize(with_usize(json!({"op": "swap", "f": f, "a": 0, "d": if f == "copy" {2} else {0}}), "i", i), "j", i));
            }
            all.push(with_usize(json!({"op": "cofactors", "a": 0, "d0": 2, "d1": 3}), "i", i));
            all.push(with_usize(json!({"op": "fromcof", "a": 0, "b": 1, "d": 2}), "i", i));
            all.push(with_usize(json!({"op": "decomp", "a": 0}), "i", i));
            all.push(with_usize(json!({"op": "unate", "a": 0, "f": "pos"}), "i", i));
            all.push(with_usize(json!({"op": "unate", "a": 0, "f": "neg"}), "i", i));
        }
        // the last valid index + 1 for swap_adjacent
        if n >= 1 {
            for f in ["copy", "inplace"] {
                all.push(json!({"op": "swapadj", "f": f, "a": 0, "d": if f == "copy" {2} else {0}, "i": n - 1}));
            }
        }
        for &m in &bad_asg {
            for f in ["value", "get_bit"] {
                all.push(with_usize(json!({"op": "value", "a": 0, "f": f}), "m", m));
            }
            for f in ["set", "unset", "val1", "val0"] {
                all.push(with_usize(json!({"op": "setbit", "a": 0, "f": f}), "m", m));
            }
        }
        for chunk in all.chunks(40) {
            let mut ops = vec![load(0, n, &f0), load(1, n, &f1)];
            ops.extend(chunk.iter().cloned());
            // the tables must have survived the panics unchanged
            ops.push(json!({"op": "copy", "a": 0, "d": 4}));
            eps.push(Episode { n, tys: "both", ops });
        }
        // wrong block-slice lengths
        let nb = if n <= 6 { 1 } else { 1usize << (n - 6) };
        let mut ops: Vec<Value> = Vec::new();
        for k in [0usize, 1, 2, 3, nb + 1, 2 * nb, nb / 2] {
            if k == nb {
                continue;
            }
            ops.push(json!({"op": "load", "d": 0, "n": n, "on": [], "nbk": k}));
        }
        eps.push(Episode { n, tys: "both", ops });
        // size-mismatched operands (dynamic Lut only)
        for n2 in 0..=max_n + 1 {
            if n2 == n {
                continue;
            }
            if !thorough && (n + n2) % 2 == 0 && n2 != n + 1 {
                continue;
            }
            let g = random_on(n2, &mut r);
            let mut ops = vec![load(0, n, &f0), load(1, n2, &g)];
            for gname in ["and", "or", "xor"] {
                for f in BIN_FORMS {
                    let d = if is_inplace(f) { 0 } else { 2 };
                    ops.push(json!({"op": "logic", "g": gname, "f": f, "a": 0, "b": 1, "d": d}));
                    ops.push(json!({"op": "logic", "g": gname, "f": f, "a": 1, "b": 0, "d": if d == 0 {1} else {2}}));
                }
            }
            if n > 0 && n2 > 0 {
                let i = r.gen_range(0..n.min(n2));
                ops.push(json!({"op": "fromcof", "a": 0, "b": 1, "d": 2, "i": i}));
                ops.push(json!({"op": "fromcof", "a": 1, "b": 0, "d": 2, "i": i}));
            }
            ops.push(json!({"op": "bdd", "xs": [0, 1]}));
            ops.push(json!({"op": "bdd", "xs": [1, 0, 0]}));
            ops.push(json!({"op": "copy", "a": 0, "d": 4}));
            ops.push(json!({"op": "copy", "a": 1, "d": 5}));
            eps.push(Episode { n, tys: "lut", ops });
        }
        // valid workload: identical results expected in every profile
        let cfg = HistCfg {
            len: 25,
            queries: true,
            relforms: &REL_FORMS,
            canon_max_n: 5,
            allow_random: false,
            reload: false,
        };
        for _ in 0..(if thorough { 12 } else { 3 }) {
            let ops = history(n, &mut r, &cfg);
            eps.push(Episode { n, tys: "both", ops });
        }
    }
    // named constructors with very large counts are valid arguments (C11): same result everywhere
    for n in [0usize, 1, 3, 6, 7] {
        let mut ops: Vec<Value> = Vec::new();
        for k in [63usize, 64, 65, usize::MAX] {
            ops.push(ctor_k("threshold", 0, n, k));
            ops.push(ctor_k("equals", 1, n, k));
        }
        eps.push(Episode { n, tys: "both", ops });
    }
    // hooked successor on full low words (overflow checks)
    for n in [6usize, 7, 8] {
        let d = dom(n);
        let mut ops = vec![load(0, n, &(0..64).collect::<Vec<usize>>()), json!({"op": "vnext", "a": 0})];
        ops.push(load(1, n, &(0..d).collect::<Vec<usize>>()));
        ops.push(json!({"op": "vnext", "a": 1}));
        eps.push(Episode { n, tys: "both", ops });
    }
    eps
}

// ---------------------------------------------------------------------------------------------
// C10

/// C10 phase A: a lock-step workload over every operation common to Lut and LutN
pub fn gen_c10a(thorough: bool, seed: u64) -> Vec<Episode> {
    let mut eps = Vec::new();
    let mut r = rng(seed, 10);
    let cfg = HistCfg {
        len: 40,
        queries: true,
        relforms: &REL_FORMS,
        canon_max_n: 6,
        allow_random: false,
        reload: false,
    };
    for n in 0..=12usize {
        let k = if thorough { 40 } else if n >= 10 { 3 } else { 6 };
        for _ in 0..k {
            let ops = history(n, &mut r, &cfg);
            eps.push(Episode { n, tys: "both", ops });
        }
        // one of each operation kind with all in-range arguments (sampled above 6 variables)
        let f = random_on(n, &mut r);
        let g = random_on(n, &mut r);
        let mut ops = vec![load(0, n, &f), load(1, n, &g)];
        let idx: Vec<usize> = if n <= 6 || thorough { (0..n).collect() } else { vec![0, 5, 6, n - 1] };
        for &i in &idx {
            ops.push(json!({"op": "flip", "f": "copy", "a": 0, "d": 2, "i": i}));
            ops.push(json!({"op": "cofactors", "a": 0, "d0": 2, "d1": 3, "i": i}));
            ops.push(json!({"op": "fromcof", "a": 0, "b": 1, "d": 2, "i": i}));
            ops.push(json!({"op": "decomp", "a": 0, "i": i}));
            ops.push(json!({"op": "unate", "a": 0, "i": i, "f": "pos"}));
            ops.push(json!({"op": "unate", "a": 1, "i": i, "f": "neg"}));
            for &j in &idx {
                ops.push(json!({"op": "swap", "f": "copy", "a": 0, "d": 2, "i": i, "j": j}));
            }
            if i + 1 < n {
                ops.push(json!({"op": "swapadj", "f": "copy", "a": 1, "d": 2, "i": i}));
            }
        }
        for fm in TEXT_FORMS {
            ops.push(json!({"op": "text", "a": 0, "f": fm}));
        }
        for fm in TEXT_FORMS_FLAGS {
            ops.push(json!({"op": "text", "a": 0, "f": fm}));
        }
        for fm in REL_FORMS {
            ops.push(rel(0, 1, fm));
        }
        ops.push(json!({"op": "bdd", "xs": [0, 1]}));
        // a list long enough to pass any internal batching by block count (more than 4096 blocks in all)
        let blocks = if n <= 6 { 1 } else { 1usize << (n - 6) };
        let long: Vec<usize> = (0..(4096 / blocks + 1 + n % 3)).map(|k| k % 2).collect();
        ops.push(json!({"op": "bdd", "xs": long}));
        ops.push(json!({"op": "info", "a": 0}));
        if n <= 7 {
            for kind in ["p", "n", "npn"] {
                if kind != "n" && n == 7 && !thorough {
                    continue;
                }
                ops.push(json!({"op": "canon", "kind": kind, "a": 0, "d": 2}));
            }
        }
        for op in ["zero", "one", "parity", "majority"] {
            ops.push(json!({"op": op, "d": 2, "n": n}));
        }
        for k in (0..=n + 2).chain([63usize, 64, 65, 64 + n, 127, 128, 1usize << 32, (1usize << 32) + 1, usize::MAX - 1, usize::MAX]) {
            ops.push(ctor_k("threshold", 2, n, k));
            ops.push(ctor_k("equals", 3, n, k));
        }
        for c in [0u64, 1, 0xaaaa_aaaa_aaaa_aaaa, !0u64, r.gen::<u64>(), 1u64 << 63, (1u64 << (n + 1)) - 1] {
            ops.push(json!({"op": "symmetric", "d": 2, "n": n, "cb": crate::exec::bits_of(c), "c_s": c.to_string()}));
        }
        ops.push(json!({"op": "iter_start", "n": n}));
        for _ in 0..6 {
            ops.push(json!({"op": "iter_next", "d": 2}));
        }
        ops.push(json!({"op": "vnext", "a": 0}));
        eps.push(Episode { n, tys: "both", ops });
    }
    eps.extend(iter_programs(thorough, &mut r));
    eps
}

/// C10 phase A': the structured families of the decomposition and BDD drivers, replayed in lock
/// step (random tables alone never separate type-specific query code on structured inputs)
pub fn gen_c10s(thorough: bool, seed: u64) -> Vec<Episode> {
    let mut eps = Vec::new();
    let step = if thorough { 3 } else { 9 };
    for (k, e) in gen_c06(false, seed).into_iter().enumerate() {
        if e.tys == "both" && e.n >= 1 && k % step == 0 && e.ops.iter().all(|o| o["op"] != "consts") {
            eps.push(e);
        }
    }
    for (k, e) in gen_c07(false, seed).into_iter().enumerate() {
        if e.tys == "both" && k % 2 == 0 {
            eps.push(e);
        }
    }
    for (k, e) in gen_c03(false, seed).into_iter().enumerate() {
        if e.tys == "both" && k % 7 == 0 && e.ops.iter().all(|o| o["op"] != "consts") {
            eps.push(e);
        }
    }
    eps
}

/// C10 phase B: conversions between the two types and with the integer types
pub fn gen_c10b(thorough: bool, seed: u64) -> Vec<Episode> {
    let mut eps = Vec::new();
    let mut r = rng(seed, 110);
    for n in 0..=12usize {
        let tables = structured(n, &mut r);
        let cnt = if thorough { tables.len() } else { 5 };
        for t in tables.iter().rev().take(cnt) {
            let mut ops = vec![load(0, n, t)];
            ops.push(json!({"op": "conv_rt", "a": 0, "d": 1, "n": n}));
            // conversion to every static size: fails exactly when the sizes differ
            for m in 0..=12usize {
                if !thorough && m != n && (m + n) % 4 != 0 && !(m <= 6 && n <= 6) {
                    continue;
                }
                ops.push(json!({"op": "conv_try", "a": 0, "d": 2, "n": m}));
            }
            eps.push(Episode { n, tys: "lut", ops });
        }
    }
    // integer conversions: all 256 values for u8, structured + random for the wider ones
    let mut ops: Vec<Value> = Vec::new();
    for v in 0..256u64 {
        ops.push(json!({"op": "conv_int", "w": 8, "d": 0, "vb": crate::exec::bits_of(v)}));
        if ops.len() >= 64 {
            eps.push(Episode { n: 3, tys: "lut", ops });
            ops = Vec::new();
        }
    }
    for w in [16u32, 32, 64] {
        let mut vals: Vec<u64> = vec![0, 1, !0u64, 0x8000_0000_0000_0000, 0x8000_8000_8000_8000, 0xaaaa_aaaa_aaaa_aaaa, 0x0000_0001_0001_0116];
        for b in 0..w {
            vals.push(1u64 << b);
        }
        for _ in 0..(if thorough { 400 } else { 40 }) {
            vals.push(r.gen());
        }
        let mask = if w == 64 { !0u64 } else { (1u64 << w) - 1 };
        let mut ops: Vec<Value> = Vec::new();
        for v in vals {
            ops.push(json!({"op": "conv_int", "w": w, "d": 0, "vb": crate::exec::bits_of(v & mask)}));
            if ops.len() >= 64 {
                eps.push(Episode { n: 6, tys: "lut", ops });
                ops = Vec::new();
            }
        }
        if !ops.is_empty() {
            eps.push(Episode { n: 6, tys: "lut", ops });
        }
    }
    eps
}

// ---------------------------------------------------------------------------------------------
// C04 / C05

fn canon_episode(n: usize, f: &[usize], kinds: &[&str], feed_back: bool, variants: bool) -> Episode {
    let mut ops = vec![load(0, n, f)];
    for (k, kind) in kinds.iter().enumerate() {
        let d = 1 + k;
        ops.push(json!({"op": "canon", "kind": kind, "a": 0, "d": d}));
        if feed_back {
            // the representative is itself an input that is already canonical
            ops.push(json!({"op": "canon", "kind": kind, "a": d, "d": 4 + k}));
            // ... and a pure input permutation / pure complementation of it is an input whose best
            // table is reached exactly at a swap boundary / by flips alone (setup: library swap, flip, not)
            if variants && n >= 2 && *kind != "n" {
                let i = (f.len() + k) % (n - 1);
                ops.push(json!({"op": "swap", "f": "copy", "a": d, "d": 7, "i": i, "j": n - 1}));
                ops.push(json!({"op": "canon", "kind": kind, "a": 7, "d": 4 + k}));
            }
            if variants && n >= 1 && *kind != "p" {
                ops.push(json!({"op": "flip", "f": "copy", "a": d, "d": 7, "i": f.len() % n}));
                ops.push(json!({"op": "canon", "kind": kind, "a": 7, "d": 4 + k}));
                ops.push(json!({"op": "logic", "g": "not", "f": "op_ref", "a": d, "b": d, "d": 7}));
                ops.push(json!({"op": "canon", "kind": kind, "a": 7, "d": 4 + k}));
            }
        }
    }
    Episode { n, tys: tys_for(n), ops }
}

fn symmetric_like(n: usize, r: &mut rand::rngs::StdRng) -> Vec<usize> {
    // totally symmetric up to input polarity: f(x) = s(popcount(x xor pol))
    let c: u64 = r.gen();
    let pol: usize = r.gen_range(0..dom(n));
    on_from_fn(n, |m| (c >> popcount(m ^ pol)) & 1 == 1)
}

/// C04 and C05 share the driver: canonization calls with the walk hook recorded.  `heavy` bounds
/// the number of calls whose exact orbit minimum is expensive for the specification (C04); the
/// certificate check (C05) is cheap, so C05 drives many more functions.
pub fn gen_canon(thorough: bool, seed: u64, c05: bool) -> Vec<Episode> {
    let mut eps = Vec::new();
    let mut r = rng(seed, if c05 { 5 } else { 4 });
    let all_kinds = ["p", "n", "npn"];
    // every function of up to 3 variables (4 in the thorough tier), all three groups
    let max_exh = if thorough { 4 } else { 3 };
    for n in 0..=max_exh {
        let total: u64 = 1u64 << (1u64 << n);
        for f in 0..total {
            if n == 4 && c05 == false && f % 4 != (seed % 4) {
                continue; // C04 at n = 4: a quarter of the functions per seed (16384), exact minimum each
            }
            let on: Vec<usize> = (0..dom(n)).filter(|&m| (f >> m) & 1 == 1).collect();
            eps.push(canon_episode(n, &on, &all_kinds, n <= 3 || c05, c05));
        }
    }
    // every 3-variable function embedded in 7 and 8 variables, on the top three variables (unions of
    // aligned index intervals) and on the low three (word-periodic): small orbits, exact and cheap for N
    for n in [7usize, 8] {
        let stride = if thorough { 1 } else if n == 7 { 2 } else { 4 };
        for g in (0..256u64).step_by(stride) {
            let top = on_from_fn(n, |x| (g >> (x >> (n - 3))) & 1 == 1);
            eps.push(canon_episode(n, &top, &["n"], c05, false));
            if g % 4 == (seed % 4) {
                let low = on_from_fn(n, |x| (g >> (x & 7)) & 1 == 1);
                eps.push(canon_episode(n, &low, &["n"], c05, false));
            }
        }
    }
    let scale = |q: usize, t: usize| if thorough { t } else { q };
    for n in (max_exh + 1)..=8usize {
        let tables = structured(n, &mut r);
        // (count for npn, count for p, count for n)
        let (c_npn, c_p, c_n) = if c05 {
            match n {
                4 => (300, 300, 300),
                5 => (scale(60, 600), scale(100, 600), scale(200, 600)),
                6 => (scale(12, 60), scale(60, 300), scale(100, 400)),
                7 => (scale(8, 30), scale(40, 200), scale(40, 200)),
                _ => (scale(4, 12), scale(24, 100), scale(24, 100)),
            }
        } else {
            match n {
                4 => (100, 100, 100),
                5 => (scale(16, 300), scale(60, 600), scale(100, 600)),
                6 => (scale(3, 30), scale(20, 200), scale(60, 300)),
                7 => (scale(1, 3), scale(3, 20), scale(24, 200)),
                _ => (scale(0, 1), scale(1, 3), scale(12, 120)),
            }
        };
        for (kind, cnt) in [("n", c_n), ("npn", c_npn), ("p", c_p)] {
            for k in 0..cnt {
                let f = match k % 8 {
                    0 => random_on(n, &mut r),
                    1 => symmetric_like(n, &mut r),
                    2 => tables[r.gen_range(0..tables.len())].clone(),
                    3 => sparse_on(n, &mut r, 1 + k % 5),
                    // a function of fewer variables padded with dummy variables (upper words repeat or vanish)
                    4 => {
                        let m = r.gen_range(1..n);
                        let g = random_on(m, &mut r);
                        if k % 16 < 8 {
                            on_from_fn(n, |x| g.binary_search(&(x & (dom(m) - 1))).is_ok())
                        } else {
                            // ... or depending on the TOP m variables only (unions of aligned index intervals)
                            on_from_fn(n, |x| g.binary_search(&(x >> (n - m))).is_ok())
                        }
                    }
                    // !x_top & g, x_top & g: all the action in one half of the table
                    5 => {
                        let g = random_on(n - 1, &mut r);
                        let hi = k % 16 < 8;
                        on_from_fn(n, |x| ((x >> (n - 1)) & 1 == 1) == hi && g.binary_search(&(x & (dom(n - 1) - 1))).is_ok())
                    }
                    // a literal pair x_i & !x_j, or a two-variable function, embedded in n variables
                    6 => {
                        let i = r.gen_range(0..n);
                        let j = (i + 1 + r.gen_range(0..n - 1)) % n;
                        on_from_fn(n, |x| (x >> i) & 1 == 1 && (x >> j) & 1 == 0)
                    }
                    // x_top ? (AND of the others) : g
                    _ => {
                        let g = random_on(n - 1, &mut r);
                        on_from_fn(n, |x| {
                            let low = x & (dom(n - 1) - 1);
                            if (x >> (n - 1)) & 1 == 1 { low == dom(n - 1) - 1 } else { g.binary_search(&low).is_ok() }
                        })
                    }
                };
                let heavy = kind == "npn" && n >= 6;
                eps.push(canon_episode(n, &f, &[kind], c05 || !heavy, c05 || (k % 8 == 0 && n <= 5)));
            }
        }
    }
    // NPN / P at n = 7, 8 on mux-shaped tables x_top ? h : g with h symmetric (constant, majority, parity, a random
    // count mask) and g arbitrary: one half of the table is invariant under input exchanges that change the other
    // half, so a walk that decides from part of the table whether a step "changed anything" goes wrong here.
    // The exact minimum is out of reach at these sizes; the specification checks the two-step orbit neighbourhood.
    if !c05 {
        for n in [8usize, 7] {
            let cnt = if thorough { if n == 7 { 40 } else { 400 } } else if n == 7 { 40 } else { 96 };
            for k in 0..cnt {
                let g = random_on(n - 1, &mut r);
                let c: u64 = match k % 4 {
                    0 | 1 if k % 8 < 6 => 0,
                    1 => (0..n as u64).filter(|p| 2 * p >= n as u64 - 1).fold(0, |m, p| m | (1 << p)),
                    2 => 0xaaaa_aaaa_aaaa_aaaa,
                    _ => r.gen(),
                };
                let h_on_top = k % 8 < 4;
                // the selecting variable is the top one, or (one time in four) any other
                let sel = if k % 16 >= 12 { r.gen_range(0..n) } else { n - 1 };
                let f = on_from_fn(n, |x| {
                    let low = (x & ((1 << sel) - 1)) | ((x >> (sel + 1)) << sel);
                    let top = (x >> sel) & 1 == 1;
                    if top == h_on_top { (c >> popcount(low)) & 1 == 1 } else { g.binary_search(&low).is_ok() }
                });
                let kind = if k % 5 == 4 { "p" } else { "npn" };
                let mut e = canon_episode(n, &f, &[kind], false, false);
                if k % 8 >= 2 {
                    e.tys = "lut"; // the kernel is shared: most of these on one type only
                }
                eps.push(e);
            }
        }
    }
    // functions invariant under rotating the variables but not totally symmetric (ring sums / ring ORs of a local
    // pattern): whatever symmetry shortcut a walk takes, the representative must still be the orbit minimum
    if !c05 {
        for n in 4..=8usize {
            let pat = |m: usize, i: usize| -> bool { (m >> i) & 1 == 1 && (m >> ((i + 1) % n)) & 1 == 1 && (m >> ((i + 3) % n)) & 1 == 0 };
            let rings = [on_from_fn(n, |m| (0..n).filter(|&i| pat(m, i)).count() % 2 == 1), on_from_fn(n, |m| (0..n).any(|i| pat(m, i))),
                         on_from_fn(n, |m| (0..n).any(|i| (m >> i) & 1 == 1 && (m >> ((i + 2) % n)) & 1 == 0))];
            for (k, f) in rings.iter().enumerate() {
                if n <= 7 {
                    eps.push(canon_episode(n, f, &["p"], false, false));
                }
                for kind in ["p", "npn"] {
                    let mut perm: Vec<usize> = (0..n).collect();
                    perm.swap(0, 2);
                    if k == 1 {
                        perm.swap(1, n - 1);
                    }
                    let mut e = Episode { n, tys: tys_for(n), ops: vec![load(0, n, f), json!({"op": "canon_inv", "kind": kind, "a": 0, "tperm": perm, "tmask": Vec::<usize>::new()})] };
                    if n == 8 {
                        e.tys = "lut";
                    }
                    eps.push(e);
                }
            }
        }
    }
    // orbit invariance: f and a random variant of it must get the same representative (all sizes; the only
    // exact-in-the-limit condition beyond enumeration)
    if !c05 {
        for n in 2..=8usize {
            let tables = structured(n, &mut r);
            let cnt = if thorough { if n == 8 { 150 } else { 100 } } else if n == 8 { 40 } else if n == 7 { 30 } else { 12 };
            for k in 0..cnt {
                let f = match k % 4 {
                    0 => random_on(n, &mut r),
                    1 => tables[r.gen_range(0..tables.len())].clone(),
                    2 => {
                        let g = random_on(n - 1, &mut r);
                        let hi = k % 8 < 4;
                        on_from_fn(n, |x| ((x >> (n - 1)) & 1 == 1) == hi && g.binary_search(&(x & (dom(n - 1) - 1))).is_ok())
                    }
                    _ => {
                        let g = random_on(n - 1, &mut r);
                        let c: u64 = r.gen();
                        on_from_fn(n, |x| {
                            let low = x & (dom(n - 1) - 1);
                            if (x >> (n - 1)) & 1 == 1 { (c >> popcount(low)) & 1 == 1 } else { g.binary_search(&low).is_ok() }
                        })
                    }
                };
                let kind = ["npn", "npn", "p", "n"][k % 4 ^ (k / 4) % 4];
                let mut perm: Vec<usize> = (0..n).collect();
                if kind != "n" {
                    for i in (1..n).rev() {
                        perm.swap(i, r.gen_range(0..=i));
                    }
                }
                let mask: Vec<usize> = if kind == "p" { vec![] } else { (0..=n).filter(|_| r.gen::<bool>()).collect() };
                let mut e = Episode { n, tys: tys_for(n), ops: vec![load(0, n, &f), json!({"op": "canon_inv", "kind": kind, "a": 0, "tperm": perm, "tmask": mask})] };
                if n == 8 && k % 8 >= 2 {
                    e.tys = "lut";
                }
                eps.push(e);
            }
        }
    }
    eps
}


// ---------------------------------------------------------------------------------------------
// C19

/// C19: batches of random draws, single-threaded and on concurrent threads
pub fn gen_c19(thorough: bool, _seed: u64) -> Vec<Episode> {
    let mut eps = Vec::new();
    let threads = if thorough { 16 } else { 4 };
    for n in 0..=12usize {
        eps.push(Episode { n, tys: "both", ops: vec![json!({"op": "rand_begin", "n": n, "threads": 1, "count": 256})] });
        eps.push(Episode { n, tys: "both", ops: vec![json!({"op": "rand_begin", "n": n, "threads": threads, "count": 256})] });
        // the same after a few draws of other sizes on the same thread (one single-word table, then larger ones,
        // then a count that is not a multiple of anything)
        let warm: Vec<usize> = vec![(n + 3) % 7, 7 + n % 6, 9, 2, 2, 2];
        if thorough || n % 2 == 1 || n == 6 {
        eps.push(Episode { n, tys: "both", ops: vec![json!({"op": "rand_begin", "n": n, "threads": if n % 2 == 0 { 1 } else { 2 }, "count": 256, "warm": warm})] });
        }
        // ... and with a draw of another size (another number of words) between any two draws of the batch
        let other = if n <= 6 { 7 + n % 3 } else if n % 2 == 0 { 6 } else { n - 1 };
        if thorough || n % 2 == 0 || n == 7 {
            eps.push(Episode { n, tys: "both", ops: vec![json!({"op": "rand_begin", "n": n, "threads": if n % 4 == 0 { 2 } else { 1 }, "count": 256, "inter": other})] });
        }
    }
    // one long batch on one thread (more than 2^16 words in all): no table may come back
    eps.push(Episode { n: 12, tys: "lut", ops: vec![json!({"op": "rand_begin", "n": 12, "threads": 1, "count": 1100})] });
    if thorough {
        eps.push(Episode { n: 12, tys: "lutn", ops: vec![json!({"op": "rand_begin", "n": 12, "threads": 1, "count": 1100})] });
        eps.push(Episode { n: 11, tys: "lut", ops: vec![json!({"op": "rand_begin", "n": 11, "threads": 2, "count": 2200})] });
    }
    // threads that live one after the other (each created after the previous one was joined)
    for n in if thorough { vec![8usize, 9, 10, 11, 12] } else { vec![8usize, 11] } {
        eps.push(Episode { n, tys: "both", ops: vec![json!({"op": "rand_begin", "n": n, "threads": 3, "count": 256, "serial": true})] });
    }
    // threads that have drawn very different amounts before the batch (0, 1100, 2200, ... tables of the same size)
    for n in if thorough { vec![8usize, 10, 11, 12] } else { vec![10usize, 12] } {
        eps.push(Episode { n, tys: "both", ops: vec![json!({"op": "rand_begin", "n": n, "threads": 4, "count": 256, "skew": 1100 * (1usize << (12 - n))})] });
        eps.push(Episode { n, tys: if n % 4 == 0 { "lut" } else { "lutn" }, ops: vec![json!({"op": "rand_begin", "n": n, "threads": 3, "count": 256, "skew": 1500 * (1usize << (12 - n))})] });
    }
    if thorough {
        for n in [13usize, 14] {
            eps.push(Episode { n, tys: "lut", ops: vec![json!({"op": "rand_begin", "n": n, "threads": 2, "count": 256})] });
        }
    }
    eps
}
