//! vdrive: script generator and executor binding the TLA+ specification to the real volute code.
//!
//!   vdrive gen <PROP> <quick|thorough> <seed> <script.ndjson>
//!   vdrive run <script.ndjson> <out-prefix> [--ty lut|lutn|both] [--chunk-weight W]
//!
//! `run` writes <out-prefix>.<k>.ndjson trace chunks (split at episode boundaries, by a weight
//! computed from the script only, so that two runs of the same script split identically) and
//! prints one summary line of JSON on stdout.

mod exec;
mod gen;
mod hunt;
mod hunt2;
mod naive;
mod tab;
mod two;

use exec::State;
use serde_json::{json, Value};
use std::io::{BufRead, BufReader, BufWriter, Write};
use tab::Tab;
use volute::Lut;

fn run_episode<T: Tab + Send>(ops: &[Value], out: &mut Vec<Value>) {
    let mut st: State<T> = State::new();
    for op in ops {
        if op.get("derived").is_some() {
            continue; // recorded expansion of a rand_begin (replay of a trace): regenerated below
        }
        if op["op"] == "rand_begin" {
            rand_batch::<T>(op, out);
            continue;
        }
        out.push(st.exec(op));
    }
}

/// C19: `threads` concurrent threads each draw `count` random tables of `n` variables.  One
/// `random` event per draw (tagged with its thread and its per-thread sequence number; no order
/// between threads is implied), then `rand_end`.
fn rand_batch<T: Tab + Send>(op: &Value, out: &mut Vec<Value>) {
    let n = exec::arg_usize(op, "n");
    let threads = exec::arg_usize(op, "threads");
    let count = exec::arg_usize(op, "count");
    let mut hdr = op.as_object().unwrap().clone();
    hdr.insert("ty".into(), json!(T::TY));
    hdr.insert("out".into(), json!("ok"));
    out.push(Value::Object(hdr));
    // draws of other sizes made by the same thread just before the batch (not part of the batch): a generator
    // that keeps per-thread state between calls must not depend on what was drawn before
    let warm: Vec<usize> = op.get("warm").map(|_| exec::arg_list(op, "warm")).unwrap_or_default();
    let warm_up = move |w: &[usize]| {
        for &k in w {
            let _ = std::panic::catch_unwind(|| Lut::random(k));
        }
    };
    // a draw of another size made by the same thread between any two draws of the batch
    let inter: Option<usize> = op.get("inter").and_then(|v| v.as_u64()).map(|x| x as usize);
    let draw_i = move || {
        if let Some(k) = inter {
            let _ = std::panic::catch_unwind(|| Lut::random(k));
        }
        draw::<T>(n)
    };
    let serial = op.get("serial").and_then(|v| v.as_bool()).unwrap_or(false);
    let results: Vec<Vec<Value>> = if threads <= 1 {
        warm_up(&warm);
        vec![(0..count).map(|_| draw_i()).collect()]
    } else if serial {
        // threads that live one after the other: each is created after the previous one has finished and been joined
        (0..threads)
            .map(|_| {
                std::thread::spawn(move || (0..count).map(|_| draw_i()).collect::<Vec<Value>>())
                    .join()
                    .expect("HARNESS: thread")
            })
            .collect()
    } else {
        let barrier = std::sync::Arc::new(std::sync::Barrier::new(threads));
        let w_index = std::sync::atomic::AtomicUsize::new(0);
        let handles: Vec<_> = (0..threads)
            .map(|_| {
                let b = barrier.clone();
                let mut w = warm.clone();
                // "skew": thread t first makes t * skew draws of the batch's own size (threads that have consumed very
                // different amounts of randomness must still be independent)
                let skew = op.get("skew").and_then(|v| v.as_u64()).unwrap_or(0) as usize;
                w.extend(std::iter::repeat(n).take(skew * w_index.fetch_add(1, std::sync::atomic::Ordering::SeqCst)));
                std::thread::spawn(move || {
                    b.wait();
                    warm_up(&w);
                    (0..count).map(|_| draw_i()).collect::<Vec<Value>>()
                })
            })
            .collect();
        handles.into_iter().map(|h| h.join().expect("HARNESS: thread")).collect()
    };
    for (t, evs) in results.into_iter().enumerate() {
        for (k, mut e) in evs.into_iter().enumerate() {
            let m = e.as_object_mut().unwrap();
            m.insert("thr".into(), json!(t));
            m.insert("seq".into(), json!(k));
            m.insert("ty".into(), json!(T::TY));
            m.insert("derived".into(), json!(true));
            out.push(e);
        }
    }
    out.push(json!({"op": "rand_end", "n": n, "threads": threads, "count": count, "ty": T::TY, "out": "ok", "derived": true}));
}

fn draw<T: Tab>(n: usize) -> Value {
    let r = std::panic::catch_unwind(|| T::c_random(n));
    match r {
        Ok(t) => json!({"op": "random", "n": n, "out": "ok", "post": [{"s": 0, "t": exec::enc(&t)}]}),
        Err(_) => json!({"op": "random", "n": n, "out": "panic", "post": []}),
    }
}

/// Spec -> impl: build the pre-state, perform the call, compare with what the specification expects
fn replay_one<T: Tab + Send>(sc: &Value, problems: &mut Vec<String>) {
    let mut st: State<T> = State::new();
    for s in 0..2usize {
        let t = &sc["pre"][s];
        st.exec(&json!({"op": "load", "d": s, "n": t["n"], "on": t["on"]}));
    }
    let ev = st.exec(&sc["call"]);
    let exp_out = sc["out"].as_str().unwrap_or("ok");
    let got_out = ev["out"].as_str().unwrap_or("?");
    if exp_out != got_out {
        problems.push(format!("{}: outcome {} (specification: {})", T::TY, got_out, exp_out));
        return;
    }
    for s in 0..2usize {
        let exp = &sc["post"][s];
        match st.slots[s].as_ref() {
            None => problems.push(format!("{}: slot {} empty", T::TY, s)),
            Some(t) => {
                let e = exec::enc(t);
                let n = e["n"].as_u64().unwrap() as usize;
                let wf = e["nb"].as_u64().unwrap() as usize == (if n <= 6 { 1 } else { 1usize << (n - 6) })
                    && e.get("valpanic").is_none()
                    && e["on"].as_array().unwrap().iter().all(|x| (x.as_u64().unwrap() as usize) < (1usize << n));
                let meaning = if e.get("val").is_some() {
                    e["val"].clone()
                } else {
                    json!(e["on"].as_array().unwrap().iter().filter(|x| (x.as_u64().unwrap() as usize) < (1usize << n)).collect::<Vec<_>>())
                };
                if e["n"] != exp["n"] || meaning != exp["on"] {
                    problems.push(format!("{}: slot {} = {} (specification: {})", T::TY, s, e, exp));
                } else if !wf {
                    // right function, malformed representation: C02's business only
                    problems.push(format!("WF {}: slot {} malformed: {}", T::TY, s, e));
                }
            }
        }
    }
    let exp_r = &sc["r"];
    if exp_r != "-" {
        let got = ev.get("r").cloned().unwrap_or(Value::Null);
        if &got != exp_r {
            problems.push(format!("{}: observable {} (specification: {})", T::TY, got, exp_r));
        }
    }
}

fn main() {
    let args: Vec<String> = std::env::args().collect();
    if args.len() < 2 {
        eprintln!("usage: vdrive gen|run ...");
        std::process::exit(2);
    }
    match args[1].as_str() {
        "gen" => {
            let prop = &args[2];
            let tier = &args[3];
            let seed: u64 = args[4].parse().expect("seed");
            let eps = gen::generate(prop, tier, seed);
            let mut w = BufWriter::new(std::fs::File::create(&args[5]).expect("create script"));
            let mut nops = 0usize;
            for (k, e) in eps.iter().enumerate() {
                writeln!(w, "{}", json!({"op": "reset", "ep": k, "n": e.n, "tys": e.tys, "prop": prop, "w": gen::weight(prop, e, tier == "thorough")})).unwrap();
                for op in &e.ops {
                    writeln!(w, "{}", op).unwrap();
                    nops += 1;
                }
            }
            w.flush().unwrap();
            println!("{}", json!({"episodes": eps.len(), "ops": nops}));
        }
        "hunt" => {
            // vdrive hunt <PROP> <seed> <budget_ms> <out_script>
            exec::silence_panics();
            let prop = &args[2];
            let seed: u64 = args[3].parse().expect("seed");
            let budget: u64 = args[4].parse().expect("budget");
            let res = if ["C12", "C13", "C14", "C15", "C16"].contains(&prop.as_str()) {
                hunt2::hunt(prop, seed, budget)
            } else {
                hunt::hunt(prop, seed, budget)
            };
            let mut w = BufWriter::new(std::fs::File::create(&args[5]).expect("create script"));
            let mut nops = 0usize;
            for (k, e) in res.episodes.iter().enumerate() {
                writeln!(w, "{}", json!({"op": "reset", "ep": k, "n": e.n, "tys": e.tys, "prop": prop, "w": gen::weight(prop, e, budget > 20000)})).unwrap();
                for op in &e.ops {
                    writeln!(w, "{}", op).unwrap();
                    nops += 1;
                }
            }
            w.flush().unwrap();
            println!("{}", json!({"episodes": res.episodes.len(), "ops": nops, "screened": res.screened, "suspicious": res.suspicious}));
        }
        "run" => {
            exec::silence_panics();
            let script = &args[2];
            let prefix = &args[3];
            let mut ty = "both".to_string();
            let mut chunk_weight: usize = 60_000;
            let mut i = 4;
            while i < args.len() {
                match args[i].as_str() {
                    "--ty" => {
                        ty = args[i + 1].clone();
                        i += 2;
                    }
                    "--chunk-weight" => {
                        chunk_weight = args[i + 1].parse().unwrap();
                        i += 2;
                    }
                    _ => panic!("HARNESS: bad arg {}", args[i]),
                }
            }
            // read episodes
            let rd = BufReader::new(std::fs::File::open(script).expect("open script"));
            let mut episodes: Vec<Vec<Value>> = Vec::new();
            for line in rd.lines() {
                let line = line.unwrap();
                if line.trim().is_empty() {
                    continue;
                }
                let v: Value = serde_json::from_str(&line).expect("HARNESS: script json");
                if v["op"] == "reset" {
                    episodes.push(vec![v]);
                } else {
                    episodes.last_mut().expect("HARNESS: op before reset").push(v);
                }
            }
            let mut chunk = 0usize;
            let mut weight = 0usize;
            let mut nev = 0usize;
            let mut nep = 0usize;
            let mut npanic = 0usize;
            let mut chunk_line = 0usize;
            let mut last_walk: Option<(String, usize)> = None;
            let open = |k: usize| BufWriter::new(std::fs::File::create(format!("{}.{:03}.ndjson", prefix, k)).expect("create trace"));
            let mut w = open(0);
            for ep in &episodes {
                let hdr = &ep[0];
                let n = hdr["n"].as_u64().unwrap_or(0) as usize;
                let tys = hdr["tys"].as_str().unwrap_or("both");
                let mut kinds: Vec<&str> = Vec::new();
                if tys == "two" {
                    kinds.push("two");
                }
                if (tys == "both" || tys == "lut") && (ty == "both" || ty == "lut") {
                    kinds.push("lut");
                }
                if (tys == "both" || tys == "lutn") && (ty == "both" || ty == "lutn") {
                    kinds.push("lutn");
                }
                for k in kinds {
                    let mut evs: Vec<Value> = Vec::new();
                    if k == "two" {
                        let mut st = two::TwoState::new();
                        for op in ep {
                            evs.push(st.exec(op));
                        }
                    } else if k == "lut" {
                        run_episode::<Lut>(ep, &mut evs);
                    } else {
                        with_static!(n, L, run_episode::<L>(ep, &mut evs));
                    }
                    if weight > chunk_weight {
                        w.flush().unwrap();
                        chunk += 1;
                        weight = 0;
                        w = open(chunk);
                        chunk_line = 0;
                        last_walk = None;
                    }
                    for e in evs.iter_mut() {
                        if e["out"] == "panic" {
                            npanic += 1;
                        }
                        chunk_line += 1;
                        // the recorded walk (tens of kilobytes for 7 and 8 variables) is logged in full once per
                        // chunk and sequence; an identical one refers to the line that has it
                        if e.get("walk").and_then(|x| x.as_array()).map(|a| !a.is_empty()).unwrap_or(false) {
                            let ser = e["walk"].to_string();
                            match &last_walk {
                                Some((prev, line)) if *prev == ser && ser.len() > 2000 => {
                                    let line = *line;
                                    let m = e.as_object_mut().unwrap();
                                    m.remove("walk");
                                    m.insert("walk_ref".into(), json!(line));
                                }
                                _ => last_walk = Some((ser, chunk_line)),
                            }
                        }
                        writeln!(w, "{}", e).unwrap();
                        nev += 1;
                    }
                    weight += hdr["w"].as_u64().map(|x| x as usize).unwrap_or((ep.len()) * (1 + (1usize << n) / 16));
                    nep += 1;
                }
            }
            w.flush().unwrap();
            println!("{}", json!({"chunks": chunk + 1, "events": nev, "episodes": nep, "panics": npanic}));
        }
        "cmp" => {
            // vdrive cmp <lut|lutn> <n> <on-set a as json> <on-set b as json>: the library's own a.cmp(b)
            let n: usize = args[3].parse().unwrap();
            let a: Vec<usize> = serde_json::from_str(&args[4]).unwrap();
            let b: Vec<usize> = serde_json::from_str(&args[5]).unwrap();
            fn go<T: Tab>(n: usize, a: &[usize], b: &[usize]) -> Value {
                let x = T::c_from_blocks(n, &exec::pack(n, a));
                let y = T::c_from_blocks(n, &exec::pack(n, b));
                x.rel(&y, "cmp")
            }
            let r = if args[2] == "lut" { go::<Lut>(n, &a, &b) } else { with_static!(n, L, go::<L>(n, &a, &b)) };
            println!("{}", r);
        }
        "replay" => {
            // vdrive replay <scripts.ndjson> <mismatches.ndjson> [--ops op1,op2,...]
            exec::silence_panics();
            let mut ops_filter: Option<Vec<String>> = None;
            if args.len() >= 6 && args[4] == "--ops" {
                ops_filter = Some(args[5].split(',').map(|x| x.to_string()).collect());
            }
            let rd = BufReader::new(std::fs::File::open(&args[2]).expect("open scripts"));
            let mut w = BufWriter::new(std::fs::File::create(&args[3]).expect("create mismatches"));
            let mut n_scripts = 0usize;
            let mut n_mismatch = 0usize;
            let mut by_op: std::collections::BTreeMap<String, usize> = Default::default();
            for line in rd.lines() {
                let line = line.unwrap();
                if line.trim().is_empty() {
                    continue;
                }
                let sc: Value = serde_json::from_str(&line).expect("HARNESS: script json");
                let opname = sc["call"]["op"].as_str().unwrap().to_string();
                if let Some(f) = &ops_filter {
                    if !f.contains(&opname) {
                        continue;
                    }
                }
                n_scripts += 1;
                *by_op.entry(opname).or_insert(0) += 1;
                let n = sc["pre"][0]["n"].as_u64().unwrap() as usize;
                let mut problems: Vec<String> = Vec::new();
                replay_one::<Lut>(&sc, &mut problems);
                if n <= 12 {
                    with_static!(n, L, replay_one::<L>(&sc, &mut problems));
                }
                if !problems.is_empty() {
                    n_mismatch += 1;
                    writeln!(w, "{}", json!({"script": sc, "problems": problems})).unwrap();
                }
            }
            w.flush().unwrap();
            println!("{}", json!({"scripts": n_scripts, "mismatches": n_mismatch, "by_op": by_op}));
        }
        _ => {
            eprintln!("unknown command");
            std::process::exit(2);
        }
    }
}
