//! `vdrive hunt` for the two-level forms (C12 - C16): random episodes over wide input
//! distributions, every event screened by a naive re-statement of the semantics (evaluation of
//! the logged cube lists assignment by assignment); suspicious episodes and a stratified sample
//! are forwarded to the specification.  Nothing is decided here.

use crate::gen::common::*;
use crate::gen::Episode;
use crate::two::TwoState;
use rand::rngs::StdRng;
use rand::Rng;
use serde_json::{json, Value};
use std::collections::HashSet;
use std::time::{Duration, Instant};

const FORMS: [&str; 4] = ["val_val", "ref_val", "ref_ref", "val_ref"];

fn bits(m: usize) -> Vec<usize> {
    (0..usize::BITS as usize).filter(|b| (m >> b) & 1 == 1).collect()
}

fn mask(v: &Value) -> u64 {
    v.as_array().map(|a| a.iter().fold(0u64, |m, x| m | (1u64 << x.as_u64().unwrap()))).unwrap_or(0)
}

// ---------------------------------------------------------------- naive semantics of projections
#[derive(Clone, Copy, PartialEq, Debug)]
struct C {
    p: u64,
    q: u64,
}
const ALL32: u64 = 0xffff_ffff;
const CZERO: C = C { p: ALL32, q: ALL32 };

fn dc(j: &Value) -> C {
    C { p: mask(&j["p"]), q: mask(&j["q"]) }
}
fn mkcube(p: u64, q: u64) -> C {
    if p & q != 0 {
        CZERO
    } else {
        C { p, q }
    }
}
fn cval(c: C, m: u64) -> bool {
    c.p & m == c.p && c.q & m == 0
}
fn contradictory(c: C) -> bool {
    c.p & c.q != 0
}
fn implies_syn(a: C, b: C) -> bool {
    contradictory(a) || (!contradictory(b) && b.p & a.p == b.p && b.q & a.q == b.q)
}
fn cube_ok(j: &Value, exp: C) -> bool {
    dc(j) == exp && j["z"].as_bool() == Some(exp == CZERO)
}

#[derive(Clone, Copy, PartialEq, Debug)]
struct E {
    v: u64,
    x: bool,
}
fn de(j: &Value) -> E {
    E { v: mask(&j["v"]), x: j["x"].as_bool().unwrap_or(false) }
}
fn eval_e(e: E, m: u64) -> bool {
    ((e.v & m).count_ones() % 2 == 1) != e.x
}

fn form_val(k: &str, cubes: &Value, m: u64) -> bool {
    let cs = cubes.as_array().unwrap();
    match k {
        "sop" => cs.iter().any(|c| cval(dc(c), m)),
        "esop" => cs.iter().filter(|c| cval(dc(c), m)).count() % 2 == 1,
        _ => cs.iter().any(|c| eval_e(de(c), m)),
    }
}
fn form_fn(k: &str, n: usize, cubes: &Value) -> Vec<bool> {
    (0..(1u64 << n)).map(|m| form_val(k, cubes, m)).collect()
}
fn vals_fn(n: usize, vals: &Value) -> Option<Vec<bool>> {
    let mut t = vec![false; 1 << n];
    for x in vals.as_array()? {
        let m = x.as_u64()? as usize;
        if m >= t.len() {
            return None;
        }
        t[m] = true;
    }
    Some(t)
}
fn irredundant(cubes: &Value) -> bool {
    let cs: Vec<C> = cubes.as_array().unwrap().iter().map(dc).collect();
    cs.iter().all(|c| !contradictory(*c))
        && (0..cs.len()).all(|j| (0..cs.len()).all(|k| j == k || (cs[j] != cs[k] && !implies_syn(cs[j], cs[k]))))
}

/// the form `r` (projection with n, cubes, vals) denotes `f` and its value() agrees
fn form_is(k: &str, r: &Value, n: usize, f: &[bool]) -> bool {
    r["n"].as_u64() == Some(n as u64) && form_fn(k, n, &r["cubes"]) == f && (n > 12 || vals_fn(n, &r["vals"]).as_deref() == Some(f))
}

// ---------------------------------------------------------------- reading printed text (C16)
struct Parser<'a> {
    s: &'a [u8],
    i: usize,
    m: u64,
    ok: bool,
}
impl<'a> Parser<'a> {
    fn ws(&mut self) {
        while self.i < self.s.len() && self.s[self.i] == b' ' {
            self.i += 1;
        }
    }
    fn peek(&mut self) -> u8 {
        self.ws();
        if self.i < self.s.len() {
            self.s[self.i]
        } else {
            0
        }
    }
    fn expr(&mut self) -> bool {
        let mut v = self.xterm();
        while self.peek() == b'|' {
            self.i += 1;
            let w = self.xterm();
            v = v || w;
        }
        v
    }
    fn xterm(&mut self) -> bool {
        let mut v = self.prod();
        while self.peek() == b'^' {
            self.i += 1;
            let w = self.prod();
            v ^= w;
        }
        v
    }
    fn prod(&mut self) -> bool {
        let mut v = self.factor();
        loop {
            let c = self.peek();
            if c == b'x' || c == b'!' || c == b'0' || c == b'1' || c == b'(' {
                let w = self.factor();
                v = v && w;
            } else {
                return v;
            }
        }
    }
    fn factor(&mut self) -> bool {
        match self.peek() {
            b'!' => {
                self.i += 1;
                !self.factor()
            }
            b'0' => {
                self.i += 1;
                false
            }
            b'1' => {
                self.i += 1;
                true
            }
            b'(' => {
                self.i += 1;
                let v = self.expr();
                if self.peek() == b')' {
                    self.i += 1;
                } else {
                    self.ok = false;
                }
                v
            }
            b'x' => {
                self.i += 1;
                let st = self.i;
                let mut k = 0u32;
                while self.i < self.s.len() && self.s[self.i].is_ascii_digit() {
                    k = k * 10 + (self.s[self.i] - b'0') as u32;
                    self.i += 1;
                }
                if st == self.i || k >= 64 {
                    self.ok = false;
                    return false;
                }
                (self.m >> k) & 1 == 1
            }
            _ => {
                self.ok = false;
                self.i += 1;
                false
            }
        }
    }
}
fn text_fn(s: &[u8], n: usize) -> Option<Vec<bool>> {
    let mut t = Vec::with_capacity(1 << n);
    for m in 0..(1u64 << n) {
        let mut p = Parser { s, i: 0, m, ok: true };
        let v = p.expr();
        p.ws();
        if !p.ok || p.i != s.len() {
            return None;
        }
        t.push(v);
    }
    Some(t)
}

// ---------------------------------------------------------------- screening one event
fn anf(f: &[bool]) -> Vec<bool> {
    let mut a = f.to_vec();
    let n = a.len().trailing_zeros() as usize;
    for i in 0..n {
        for m in 0..a.len() {
            if (m >> i) & 1 == 1 {
                a[m] ^= a[m ^ (1 << i)];
            }
        }
    }
    a
}

fn on_tab(n: usize, on: &Value) -> Vec<bool> {
    let mut t = vec![false; 1 << n];
    for x in on.as_array().unwrap() {
        t[x.as_u64().unwrap() as usize] = true;
    }
    t
}

fn suspicious(ev: &Value) -> bool {
    if ev["out"] != "ok" {
        return true;
    }
    let op = ev["op"].as_str().unwrap();
    let k = ev["k"].as_str().unwrap_or("");
    let r = &ev["r"];
    let un = |key: &str| ev[key].as_u64().unwrap_or(0) as usize;
    match op {
        "t_mk" => {
            let c = ev["c"].as_str().unwrap();
            match k {
                "cube" => {
                    let exp = match c {
                        "one" => C { p: 0, q: 0 },
                        "zero" => CZERO,
                        "nth_var" => C { p: 1 << un("i"), q: 0 },
                        "nth_var_inv" => C { p: 0, q: 1 << un("i") },
                        "minterm" => {
                            let all = (1u64 << un("n")) - 1;
                            let m = mask(&ev["mb"]);
                            C { p: m & all, q: !m & all }
                        }
                        _ => mkcube(mask(&ev["p"]), mask(&ev["q"])),
                    };
                    !cube_ok(r, exp)
                }
                "ecube" => {
                    let exp = match c {
                        "one" => E { v: 0, x: true },
                        "zero" => E { v: 0, x: false },
                        "nth_var" => E { v: 1 << un("i"), x: false },
                        "nth_var_inv" => E { v: 1 << un("i"), x: true },
                        _ => E { v: mask(&ev["v"]), x: ev["x"].as_bool().unwrap() },
                    };
                    de(r) != exp
                }
                _ => {
                    let n = un("n");
                    if n > 12 {
                        return false;
                    }
                    let d = 1usize << n;
                    let f: Vec<bool> = match c {
                        "zero" => vec![false; d],
                        "one" => vec![true; d],
                        "nth_var" => (0..d).map(|m| (m >> un("i")) & 1 == 1).collect(),
                        "nth_var_inv" => (0..d).map(|m| (m >> un("i")) & 1 == 0).collect(),
                        "from_cubes" => form_fn(k, n, &ev["cubes"]),
                        _ => on_tab(n, &ev["on"]),
                    };
                    if !form_is(k, r, n, &f) {
                        return true;
                    }
                    if c.starts_with("from_lut") {
                        let cs: Vec<C> = r["cubes"].as_array().unwrap().iter().map(dc).collect();
                        let set: HashSet<(u64, u64)> = cs.iter().map(|c| (c.p, c.q)).collect();
                        if set.len() != cs.len() {
                            return true;
                        }
                        let all = (1u64 << n) - 1;
                        if k == "sop" {
                            let exp: HashSet<(u64, u64)> = (0..d).filter(|&m| f[m]).map(|m| (m as u64, !(m as u64) & all)).collect();
                            return exp != set;
                        } else {
                            let a = anf(&f);
                            let exp: HashSet<(u64, u64)> = (0..d).filter(|&m| a[m]).map(|m| (m as u64, 0u64)).collect();
                            return exp != set;
                        }
                    }
                    false
                }
            }
        }
        "t_val" => {
            let m = mask(&ev["mb"]);
            let exp = match k {
                "cube" => cval(dc(&ev["av"]), m),
                "ecube" => eval_e(de(&ev["av"]), m),
                _ => form_val(k, &ev["av"]["cubes"], m),
            };
            r.as_bool() != Some(exp)
        }
        "t_bin" => match k {
            "cube" => {
                let (a, b) = (dc(&ev["av"]), dc(&ev["bv"]));
                !cube_ok(r, mkcube(a.p | b.p, a.q | b.q))
            }
            "ecube" => {
                let (a, b) = (de(&ev["av"]), de(&ev["bv"]));
                de(r) != E { v: a.v ^ b.v, x: a.x != b.x }
            }
            _ => {
                let n = ev["av"]["n"].as_u64().unwrap() as usize;
                if n > 12 {
                    return false;
                }
                let fa = form_fn(k, n, &ev["av"]["cubes"]);
                let fb = form_fn(k, n, &ev["bv"]["cubes"]);
                let g = ev["g"].as_str().unwrap();
                let fr: Vec<bool> = (0..fa.len())
                    .map(|m| match g {
                        "and" => fa[m] && fb[m],
                        "or" => fa[m] || fb[m],
                        _ => fa[m] != fb[m],
                    })
                    .collect();
                !form_is(k, r, n, &fr) || (k == "sop" && !irredundant(&r["cubes"]))
            }
        },
        "t_not" => match k {
            "ecube" => {
                let a = de(&ev["av"]);
                de(r) != E { v: a.v, x: !a.x }
            }
            _ => {
                let n = ev["av"]["n"].as_u64().unwrap() as usize;
                if n > 12 {
                    return false;
                }
                let fr: Vec<bool> = form_fn(k, n, &ev["av"]["cubes"]).iter().map(|b| !*b).collect();
                !form_is(k, r, n, &fr) || (k == "sop" && !irredundant(&r["cubes"]))
            }
        },
        "t_rel" => {
            let f = ev["f"].as_str().unwrap();
            match k {
                "cube" => {
                    let (a, b) = (dc(&ev["av"]), dc(&ev["bv"]));
                    let exp = match f {
                        "implies" => implies_syn(a, b),
                        "intersects" => !contradictory(a) && !contradictory(b) && a.p & b.q == 0 && a.q & b.p == 0,
                        _ => a == b || (contradictory(a) && contradictory(b)),
                    };
                    r.as_bool() != Some(exp)
                }
                "ecube" => r.as_bool() != Some(de(&ev["av"]) == de(&ev["bv"])),
                _ => false,
            }
        }
        "t_implut" => {
            let n = un("n");
            let f = on_tab(n, &ev["on"]);
            let exp = match k {
                "cube" => (0..f.len()).all(|m| !cval(dc(&ev["av"]), m as u64) || f[m]),
                _ => (0..f.len()).all(|m| !eval_e(de(&ev["av"]), m as u64) || f[m]),
            };
            r.as_bool() != Some(exp)
        }
        "t_info" => {
            let gates = |l: u64| if l <= 1 { 0 } else { l - 1 };
            match k {
                "cube" => {
                    let c = dc(&ev["av"]);
                    let z = contradictory(c);
                    let lits = if z { 0 } else { (c.p.count_ones() + c.q.count_ones()) as u64 };
                    let one = c.p == 0 && c.q == 0;
                    r["num_lits"].as_u64() != Some(lits)
                        || r["num_gates"].as_u64() != Some(gates(lits))
                        || r["is_zero"].as_bool() != Some(z)
                        || r["is_one"].as_bool() != Some(one)
                        || r["is_constant"].as_bool() != Some(z || one)
                }
                "ecube" => {
                    let c = de(&ev["av"]);
                    let lits = c.v.count_ones() as u64;
                    r["num_lits"].as_u64() != Some(lits)
                        || r["num_gates"].as_u64() != Some(gates(lits))
                        || r["is_zero"].as_bool() != Some(c.v == 0 && !c.x)
                        || r["is_one"].as_bool() != Some(c.v == 0 && c.x)
                }
                _ => {
                    let n = ev["av"]["n"].as_u64().unwrap() as usize;
                    if n > 12 {
                        return false;
                    }
                    let f = form_fn(k, n, &ev["av"]["cubes"]);
                    let zero = f.iter().all(|b| !*b);
                    let one = f.iter().all(|b| *b);
                    let iz = r["is_zero"].as_bool().unwrap_or(false);
                    let io = r["is_one"].as_bool().unwrap_or(false);
                    r["num_vars"].as_u64() != Some(n as u64)
                        || r["num_cubes"].as_u64() != Some(ev["av"]["cubes"].as_array().unwrap().len() as u64)
                        || (io && !one)
                        || (if k == "sop" { iz != zero } else { iz && !zero })
                }
            }
        }
        "t_tolut" => {
            let n = ev["av"]["n"].as_u64().unwrap() as usize;
            if n > 12 {
                return false;
            }
            let f = form_fn(k, n, &ev["av"]["cubes"]);
            let nb = if n <= 6 { 1 } else { 1u64 << (n - 6) };
            let on: Vec<u64> = r["on"].as_array().unwrap().iter().map(|x| x.as_u64().unwrap()).collect();
            r["n"].as_u64() != Some(n as u64)
                || r["nb"].as_u64() != Some(nb)
                || r.get("val").is_some()
                || r.get("valpanic").is_some()
                || on.iter().any(|&m| m >= (1u64 << n))
                || on.len() != f.iter().filter(|b| **b).count()
                || on.iter().any(|&m| !f[m as usize])
        }
        "t_text" => {
            let n = un("n");
            if n > 12 {
                return false;
            }
            let s: Vec<u8> = r.as_array().unwrap().iter().map(|x| x.as_u64().unwrap() as u8).collect();
            match (text_fn(&s, n), vals_fn(n, &ev["vals"])) {
                (Some(a), Some(b)) => a != b,
                _ => true,
            }
        }
        _ => false,
    }
}

// ---------------------------------------------------------------- random candidates
fn rcube(r: &mut StdRng, nv: usize) -> (usize, usize) {
    let mut p = 0usize;
    let mut q = 0usize;
    let mode = r.gen_range(0..7);
    if mode >= 5 {
        // every variable with the same polarity, perhaps one literal short or one literal opposed
        let all = if nv >= 64 { usize::MAX } else { (1usize << nv) - 1 };
        let (mut p, mut q) = if mode == 5 { (all, 0) } else { (0, all) };
        if nv > 0 {
            let v = 1usize << r.gen_range(0..nv);
            match r.gen_range(0..3) {
                0 => {
                    p &= !v;
                    q &= !v;
                }
                1 => {
                    let t = p & v;
                    p = (p & !v) | (q & v);
                    q = (q & !v) | t;
                }
                _ => {}
            }
        }
        return (p, q);
    }
    for v in 0..nv {
        let (take, pos) = match mode {
            0 => (r.gen_range(0..3) != 0, r.gen()),
            1 => (r.gen_range(0..nv.max(1)) < 2, r.gen()),
            2 => (true, r.gen()),
            3 => (r.gen(), true),
            _ => (r.gen_range(0..4) == 0, r.gen_range(0..4) == 0),
        };
        if take {
            if pos {
                p |= 1 << v;
            } else {
                q |= 1 << v;
            }
        }
    }
    (p, q)
}

fn related_cube(r: &mut StdRng, nv: usize, c: (usize, usize)) -> (usize, usize) {
    let (mut p, mut q) = c;
    for _ in 0..r.gen_range(0..3) {
        if nv == 0 {
            break;
        }
        let v = 1usize << r.gen_range(0..nv);
        match r.gen_range(0..4) {
            0 => {
                p &= !v;
                q &= !v;
            }
            1 => {
                p |= v;
                q &= !v;
            }
            2 => {
                q |= v;
                p &= !v;
            }
            _ => {
                // flip the literal if present
                if p & v != 0 {
                    p &= !v;
                    q |= v;
                } else if q & v != 0 {
                    q &= !v;
                    p |= v;
                }
            }
        }
    }
    (p, q)
}

fn rcubes(r: &mut StdRng, n: usize, maxk: usize) -> Vec<(usize, usize)> {
    let k = r.gen_range(0..=maxk);
    let mut v: Vec<(usize, usize)> = Vec::new();
    for _ in 0..k {
        let c = if !v.is_empty() && r.gen_range(0..3) == 0 {
            let b = v[r.gen_range(0..v.len())];
            related_cube(r, n, b)
        } else {
            rcube(r, n)
        };
        v.push(c);
    }
    v
}

/// a literal list as a caller may write it: in any order, with repeated entries
fn sloppy(r: &mut StdRng, m: usize) -> Vec<usize> {
    let mut v = bits(m);
    if !v.is_empty() {
        for _ in 0..r.gen_range(0..3) {
            let x = v[r.gen_range(0..v.len())];
            v.push(x);
        }
        for k in (1..v.len()).rev() {
            v.swap(k, r.gen_range(0..=k));
        }
    }
    v
}

fn cubes_json(cs: &[(usize, usize)]) -> Value {
    json!(cs.iter().map(|&(p, q)| json!({"p": bits(p), "q": bits(q)})).collect::<Vec<_>>())
}

fn recubes(r: &mut StdRng, n: usize, maxk: usize) -> Vec<(usize, bool)> {
    let k = r.gen_range(0..=maxk);
    (0..k)
        .map(|_| {
            let v = match r.gen_range(0..4) {
                0 => 0,
                1 => 1usize << r.gen_range(0..n.max(1)) & ((1usize << n) - 1),
                2 => (1usize << n) - 1,
                _ => r.gen_range(0..(1usize << n)),
            };
            (v, r.gen())
        })
        .collect()
}

fn ecubes_json(cs: &[(usize, bool)]) -> Value {
    json!(cs.iter().map(|&(v, x)| json!({"v": bits(v), "x": x})).collect::<Vec<_>>())
}

fn rassign(r: &mut StdRng, nv: usize, c: (usize, usize)) -> usize {
    let all = if nv >= 64 { usize::MAX } else { (1usize << nv) - 1 };
    match r.gen_range(0..6) {
        0 => c.0,                                              // exactly the positive literals
        1 => c.0 | (r.gen::<usize>() & all & !c.1),            // satisfying
        2 if c.1 != 0 => c.0 | (1 << (c.1.trailing_zeros())),  // one negative literal violated
        3 => all,
        4 => 0,
        _ => r.gen::<usize>() & all,
    }
}

thread_local! {
    static POOL: std::cell::RefCell<std::collections::HashMap<usize, Vec<Vec<usize>>>> = std::cell::RefCell::new(std::collections::HashMap::new());
}

fn table(r: &mut StdRng, n: usize) -> Vec<usize> {
    if r.gen() {
        random_on(n, r)
    } else {
        POOL.with(|p| {
            let mut p = p.borrow_mut();
            if !p.contains_key(&n) || r.gen_range(0..50) == 0 {
                p.insert(n, structured(n, r));
            }
            let s = &p[&n];
            s[r.gen_range(0..s.len())].clone()
        })
    }
}

fn candidate(prop: &str, r: &mut StdRng) -> (usize, Vec<Value>) {
    match prop {
        "C12" => {
            let nv = [2usize, 4, 6, 12, 31, 32][r.gen_range(0..6)];
            let a = rcube(r, nv);
            let b = if r.gen() { related_cube(r, nv, a) } else { rcube(r, nv) };
            let mk = |r: &mut StdRng, d: usize, c: (usize, usize)| -> Value {
                match r.gen_range(0..6) {
                    0 => json!({"op": "t_mk", "k": "cube", "c": "from_mask", "d": d, "p": bits(c.0), "q": bits(c.1)}),
                    1 => json!({"op": "t_mk", "k": "cube", "c": "minterm", "d": d, "n": nv, "mb": bits(c.0)}),
                    2 => {
                        // possibly contradictory literal lists
                        let extra = if nv > 0 { 1usize << r.gen_range(0..nv) } else { 0 };
                        json!({"op": "t_mk", "k": "cube", "c": "from_vars", "d": d, "p": bits(c.0 | extra), "q": bits(c.1)})
                    }
                    3 => json!({"op": "t_mk", "k": "cube", "c": "from_vars", "d": d, "p": sloppy(r, c.0), "q": sloppy(r, c.1)}),
                    _ => json!({"op": "t_mk", "k": "cube", "c": "from_vars", "d": d, "p": bits(c.0), "q": bits(c.1)}),
                }
            };
            let mut ops = vec![mk(r, 0, a), mk(r, 1, b)];
            for _ in 0..3 {
                ops.push(match r.gen_range(0..7) {
                    0 => json!({"op": "t_val", "a": r.gen_range(0..2), "mb": bits(rassign(r, nv, a))}),
                    1 => json!({"op": "t_bin", "g": "and", "f": FORMS[r.gen_range(0..4)], "a": 0, "b": 1, "d": 2}),
                    2 => json!({"op": "t_rel", "f": "implies", "a": 0, "b": 1}),
                    3 => json!({"op": "t_rel", "f": "intersects", "a": 0, "b": 1}),
                    4 => json!({"op": "t_rel", "f": "eq", "a": 0, "b": 1}),
                    5 => json!({"op": "t_info", "a": r.gen_range(0..2)}),
                    _ => {
                        if nv <= 6 {
                            let n = nv;
                            // the cube's own function, possibly with one assignment moved
                            let c = C { p: a.0 as u64, q: a.1 as u64 };
                            let mut on: Vec<usize> = if r.gen() {
                                (0..(1usize << n)).filter(|&m| cval(c, m as u64)).collect()
                            } else {
                                table(r, n)
                            };
                            if r.gen() && !on.is_empty() {
                                on.remove(r.gen_range(0..on.len()));
                            }
                            json!({"op": "t_implut", "a": 0, "n": n, "on": on})
                        } else {
                            json!({"op": "t_info", "a": 0})
                        }
                    }
                });
            }
            (nv.min(12), ops)
        }
        "C13" => {
            if r.gen() {
                let nv = [2usize, 5, 12, 31, 32][r.gen_range(0..5)];
                let all = if nv >= 64 { usize::MAX } else { (1usize << nv) - 1 };
                let va = r.gen::<usize>() & all;
                let vb = if r.gen() { va ^ (1 << r.gen_range(0..nv)) } else { r.gen::<usize>() & all };
                let la = if r.gen_range(0..3) == 0 { sloppy(r, va) } else { bits(va) };
                let mut ops = vec![
                    json!({"op": "t_mk", "k": "ecube", "c": "from_vars", "d": 0, "v": la, "x": r.gen::<bool>()}),
                    json!({"op": "t_mk", "k": "ecube", "c": "from_vars", "d": 1, "v": bits(vb), "x": r.gen::<bool>()}),
                ];
                for _ in 0..3 {
                    ops.push(match r.gen_range(0..6) {
                        0 => json!({"op": "t_val", "a": r.gen_range(0..2), "mb": bits(rassign(r, nv, (va, vb)))}),
                        1 => json!({"op": "t_bin", "g": "xor", "f": FORMS[r.gen_range(0..4)], "a": 0, "b": 1, "d": 2}),
                        2 => json!({"op": "t_not", "f": if r.gen() { "ref" } else { "val" }, "a": r.gen_range(0..2), "d": 3}),
                        3 => json!({"op": "t_rel", "f": "eq", "a": 0, "b": 1}),
                        4 if nv <= 5 => json!({"op": "t_implut", "a": 0, "n": nv, "on": table(r, nv)}),
                        _ => json!({"op": "t_info", "a": r.gen_range(0..2)}),
                    });
                }
                (nv.min(12), ops)
            } else {
                let n = r.gen_range(0..=8usize);
                let a = recubes(r, n, 6);
                let b = recubes(r, n, 4);
                let mut ops = vec![
                    json!({"op": "t_mk", "k": "soes", "c": "from_cubes", "d": 0, "n": n, "cubes": ecubes_json(&a)}),
                    json!({"op": "t_mk", "k": "soes", "c": "from_cubes", "d": 1, "n": n, "cubes": ecubes_json(&b)}),
                    json!({"op": "t_bin", "g": "or", "f": FORMS[r.gen_range(0..4)], "a": 0, "b": 1, "d": 2}),
                ];
                for _ in 0..3 {
                    let s = r.gen_range(0..3);
                    ops.push(match r.gen_range(0..3) {
                        0 => json!({"op": "t_val", "a": s, "mb": bits(r.gen_range(0..(1usize << n)))}),
                        1 => json!({"op": "t_tolut", "a": s, "f": if r.gen() { "ref" } else { "val" }}),
                        _ => json!({"op": "t_info", "a": s}),
                    });
                }
                (n, ops)
            }
        }
        "C14" if r.gen_range(0..40) == 0 => {
            // a long cube list most of whose members share a literal (absorption around list position 64, 128)
            let n = r.gen_range(9..=12usize);
            let base = if r.gen() { r.gen_range(56..72) } else { r.gen_range(120..136) };
            let round = r.gen_range(0..16);
            (n, crate::gen::two::long_list_ops(r, n, base, round))
        }
        "C14" => {
            let n = r.gen_range(0..=10usize);
            let mut ops = Vec::new();
            let leaves = r.gen_range(1..=3usize);
            for s in 0..leaves {
                if r.gen_range(0..5) == 0 && n <= 8 {
                    ops.push(json!({"op": "t_mk", "k": "sop", "c": if r.gen() { "from_lut_ref" } else { "from_lut_val" }, "d": s, "n": n, "on": table(r, n)}));
                } else {
                    let cs = rcubes(r, n, 12);
                    ops.push(json!({"op": "t_mk", "k": "sop", "c": "from_cubes", "d": s, "n": n, "cubes": cubes_json(&cs)}));
                }
            }
            let mut top = leaves;
            for _ in 0..r.gen_range(1..=4) {
                let a = r.gen_range(0..top);
                match r.gen_range(0..3) {
                    0 if n <= 8 => ops.push(json!({"op": "t_not", "f": if r.gen() { "ref" } else { "val" }, "a": a, "d": top})),
                    1 => ops.push(json!({"op": "t_bin", "g": "and", "f": FORMS[r.gen_range(0..4)], "a": a, "b": r.gen_range(0..top), "d": top})),
                    _ => ops.push(json!({"op": "t_bin", "g": "or", "f": FORMS[r.gen_range(0..4)], "a": a, "b": r.gen_range(0..top), "d": top})),
                }
                if top < 7 {
                    top += 1;
                }
            }
            let s = top - 1;
            ops.push(json!({"op": "t_tolut", "a": s, "f": if r.gen() { "ref" } else { "val" }}));
            ops.push(json!({"op": "t_info", "a": s}));
            ops.push(json!({"op": "t_val", "a": s, "mb": bits(r.gen_range(0..(1usize << n)))}));
            (n, ops)
        }
        "C15" => {
            let n = if r.gen_range(0..12) == 0 { r.gen_range(8..=10usize) } else { r.gen_range(0..=7usize) };
            let mut ops = vec![json!({"op": "t_mk", "k": "esop", "c": if r.gen() { "from_lut_ref" } else { "from_lut_val" }, "d": 0, "n": n, "on": table(r, n)})];
            if r.gen() {
                ops.push(json!({"op": "t_mk", "k": "esop", "c": "from_lut_ref", "d": 1, "n": n, "on": table(r, n)}));
            } else {
                let cs = rcubes(r, n, 10);
                ops.push(json!({"op": "t_mk", "k": "esop", "c": "from_cubes", "d": 1, "n": n, "cubes": cubes_json(&cs)}));
            }
            ops.push(json!({"op": "t_bin", "g": "xor", "f": FORMS[r.gen_range(0..4)], "a": 0, "b": 1, "d": 2}));
            ops.push(json!({"op": "t_not", "f": if r.gen() { "ref" } else { "val" }, "a": r.gen_range(0..3), "d": 3}));
            for _ in 0..3 {
                let s = r.gen_range(0..4);
                ops.push(match r.gen_range(0..3) {
                    0 => json!({"op": "t_val", "a": s, "mb": bits(r.gen_range(0..(1usize << n)))}),
                    1 => json!({"op": "t_tolut", "a": s, "f": if r.gen() { "ref" } else { "val" }}),
                    _ => json!({"op": "t_info", "a": s}),
                });
            }
            (n, ops)
        }
        "C16" if r.gen_range(0..6) == 0 => {
            let n = r.gen_range(11..=12usize);
            let round = r.gen_range(0..48);
            (n, crate::gen::two::confusable_ops(r, n, round))
        }
        "C16" => {
            let n = r.gen_range(0..=12usize);
            let mk = match r.gen_range(0..5) {
                0 => {
                    let c = rcube(r, n);
                    json!({"op": "t_mk", "k": "cube", "c": "from_vars", "d": 0, "p": bits(c.0), "q": bits(c.1)})
                }
                1 => json!({"op": "t_mk", "k": "ecube", "c": "from_vars", "d": 0, "v": bits(r.gen_range(0..(1usize << n))), "x": r.gen::<bool>()}),
                2 => json!({"op": "t_mk", "k": "sop", "c": "from_cubes", "d": 0, "n": n, "cubes": cubes_json(&rcubes(r, n, 5))}),
                3 => json!({"op": "t_mk", "k": "esop", "c": "from_cubes", "d": 0, "n": n, "cubes": cubes_json(&rcubes(r, n, 5))}),
                _ => json!({"op": "t_mk", "k": "soes", "c": "from_cubes", "d": 0, "n": n, "cubes": ecubes_json(&recubes(r, n, 5))}),
            };
            if r.gen_range(0..5) == 0 {
                // a failed print of another form first
                let other = json!({"op": "t_mk", "k": "sop", "c": "from_cubes", "d": 1, "n": n, "cubes": cubes_json(&rcubes(r, n, 3))});
                return (n, vec![other, mk, json!({"op": "t_text_fail", "a": 1, "limit": r.gen_range(0..6)}), json!({"op": "t_text", "a": 0, "n": n})]);
            }
            (n, vec![mk, json!({"op": "t_text", "a": 0, "n": n})])
        }
        _ => panic!("HARNESS: no two-level hunt for {}", prop),
    }
}

pub fn hunt(prop: &str, seed: u64, budget_ms: u64) -> crate::hunt::HuntResult {
    let mut r = rng(seed, 8888);
    let t0 = Instant::now();
    let mut out: Vec<Episode> = Vec::new();
    let (mut screened, mut nsusp, mut nsample) = (0usize, 0usize, 0usize);
    let mut strata: HashSet<String> = HashSet::new();
    while t0.elapsed() < Duration::from_millis(budget_ms) && nsusp < 40 {
        let (n, ops) = candidate(prop, &mut r);
        screened += 1;
        let mut st = TwoState::new();
        let mut bad = false;
        let mut keys: Vec<String> = Vec::new();
        for op in &ops {
            let ev = st.exec(op);
            if ev["out"] == "skip" {
                break;
            }
            keys.push(format!(
                "{}/{}/{}/{}/{}/{}",
                ev["op"].as_str().unwrap_or(""),
                ev["k"].as_str().unwrap_or(""),
                ev["c"].as_str().unwrap_or(""),
                ev["g"].as_str().unwrap_or(""),
                ev["f"].as_str().unwrap_or(""),
                n % 3
            ));
            if suspicious(&ev) {
                bad = true;
                break;
            }
        }
        if bad {
            nsusp += 1;
            out.push(Episode { n, tys: "two", ops });
        } else if nsample < 60 && keys.iter().any(|k| !strata.contains(k)) {
            strata.extend(keys);
            nsample += 1;
            out.push(Episode { n, tys: "two", ops });
        }
    }
    crate::hunt::HuntResult { episodes: out, screened, suspicious: nsusp }
}
