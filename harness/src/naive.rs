//! A naive, per-assignment re-statement of the table operations, used ONLY to screen large numbers
//! of random calls for suspicious ones (`vdrive hunt`).  It never decides anything: every episode
//! it selects (because the real code and this module disagree) and a sample of the ones it does not
//! are written to a script, executed and judged by the TLA+ specification like any other trace.
//! If this module is wrong, the specification simply finds nothing in what was forwarded.

use serde_json::Value;
use std::collections::HashSet;

pub type Tab = Vec<bool>; // length 2^n

pub fn nvars(t: &Tab) -> usize {
    t.len().trailing_zeros() as usize
}

pub fn from_on(n: usize, on: &[usize]) -> Tab {
    let mut t = vec![false; 1 << n];
    for &m in on {
        t[m] = true;
    }
    t
}

pub fn to_on(t: &Tab) -> Vec<usize> {
    (0..t.len()).filter(|&m| t[m]).collect()
}

fn bit(m: usize, i: usize) -> bool {
    (m >> i) & 1 == 1
}

pub fn flip(t: &Tab, i: usize) -> Tab {
    (0..t.len()).map(|m| t[m ^ (1 << i)]).collect()
}

pub fn swap(t: &Tab, i: usize, j: usize) -> Tab {
    (0..t.len())
        .map(|m| {
            let (bi, bj) = (bit(m, i), bit(m, j));
            let mut x = m & !(1 << i) & !(1 << j);
            if bi {
                x |= 1 << j;
            }
            if bj {
                x |= 1 << i;
            }
            t[x]
        })
        .collect()
}

pub fn cof(t: &Tab, i: usize, v: bool) -> Tab {
    (0..t.len()).map(|m| t[if v { m | (1 << i) } else { m & !(1 << i) }]).collect()
}

pub fn fromcof(c0: &Tab, c1: &Tab, i: usize) -> Tab {
    (0..c0.len()).map(|m| if bit(m, i) { c1[m] } else { c0[m] }).collect()
}

pub fn logic(g: &str, a: &Tab, b: &Tab) -> Tab {
    (0..a.len())
        .map(|m| match g {
            "not" => !a[m],
            "and" => a[m] && b[m],
            "or" => a[m] || b[m],
            _ => a[m] ^ b[m],
        })
        .collect()
}

/// numeric comparison, most significant bit = value on the all-ones assignment
pub fn cmp(a: &Tab, b: &Tab) -> &'static str {
    if a.len() != b.len() {
        return if a.len() < b.len() { "lt" } else { "gt" };
    }
    for m in (0..a.len()).rev() {
        if a[m] != b[m] {
            return if b[m] { "lt" } else { "gt" };
        }
    }
    "eq"
}

pub fn succ(t: &Tab) -> (Tab, bool) {
    let mut r = t.clone();
    for m in 0..r.len() {
        if r[m] {
            r[m] = false;
        } else {
            r[m] = true;
            return (r, true);
        }
    }
    (r, false)
}

pub fn decomp(t: &Tab, v: usize) -> &'static str {
    let c0 = cof(t, v, false);
    let c1 = cof(t, v, true);
    let z = |x: &Tab| x.iter().all(|b| !*b);
    let o = |x: &Tab| x.iter().all(|b| *b);
    if c0 == c1 {
        "Independent"
    } else if z(&c0) && o(&c1) {
        "Identity"
    } else if o(&c0) && z(&c1) {
        "Negation"
    } else if z(&c0) {
        "And"
    } else if o(&c1) {
        "Or"
    } else if o(&c0) {
        "Le"
    } else if z(&c1) {
        "Lt"
    } else if c0.iter().zip(c1.iter()).all(|(a, b)| a != b) {
        "Xor"
    } else {
        "None"
    }
}

pub fn unate(t: &Tab, v: usize, pos: bool) -> bool {
    let c0 = cof(t, v, false);
    let c1 = cof(t, v, true);
    c0.iter().zip(c1.iter()).all(|(a, b)| if pos { !*a || *b } else { !*b || *a })
}

pub fn hex(t: &Tab) -> Vec<u8> {
    let n = nvars(t);
    let w = if n <= 2 { 1 } else { 1 << (n - 2) };
    (0..w)
        .rev()
        .map(|q| {
            let mut v = 0u8;
            for b in 0..4 {
                if 4 * q + b < t.len() && t[4 * q + b] {
                    v |= 1 << b;
                }
            }
            b"0123456789abcdef"[v as usize]
        })
        .collect()
}

pub fn bin(t: &Tab) -> Vec<u8> {
    (0..t.len()).rev().map(|m| if t[m] { b'1' } else { b'0' }).collect()
}

/// shared complement-edge ROBDD size by slicing: distinct (up to complement) sub-functions that
/// depend on their top variable and are not a literal
pub fn bdd(n: usize, fs: &[Tab]) -> usize {
    let norm = |v: Vec<bool>| -> Vec<bool> {
        if v[0] {
            v.iter().map(|b| !*b).collect()
        } else {
            v
        }
    };
    let mut level: HashSet<Vec<bool>> = fs.iter().map(|f| norm(f.clone())).filter(|v| v.iter().any(|b| *b)).collect();
    let mut count = 0;
    let mut k = n;
    while k >= 1 && !level.is_empty() {
        let half = 1usize << (k - 1);
        let mut next: HashSet<Vec<bool>> = HashSet::new();
        for g in &level {
            let lo: Vec<bool> = g[..half].to_vec();
            let hi: Vec<bool> = g[half..].to_vec();
            if lo != hi {
                let literal = (lo.iter().all(|b| !*b) && hi.iter().all(|b| *b)) || (hi.iter().all(|b| !*b) && lo.iter().all(|b| *b));
                if !literal {
                    count += 1;
                }
            }
            for s in [lo, hi] {
                let s = norm(s);
                if s.iter().any(|b| *b) {
                    next.insert(s);
                }
            }
        }
        level = next;
        k -= 1;
    }
    count
}

fn popcount(m: usize) -> usize {
    m.count_ones() as usize
}

pub fn ctor(op: &Value) -> Option<Tab> {
    let n = op["n"].as_u64()? as usize;
    let d = 1usize << n;
    let name = op["op"].as_str()?;
    let big = |k: &Value| -> u64 { k.as_u64().unwrap_or(0) };
    Some(match name {
        "zero" => vec![false; d],
        "one" => vec![true; d],
        "parity" => (0..d).map(|m| popcount(m) % 2 == 1).collect(),
        "majority" => (0..d).map(|m| popcount(m) >= (n + 1) / 2).collect(),
        "nth_var" => {
            let i = op["i"].as_u64()? as usize;
            if i >= n {
                return None;
            }
            (0..d).map(|m| bit(m, i)).collect()
        }
        "threshold" => {
            let k = big(&op["k"]);
            (0..d).map(|m| popcount(m) as u64 >= k).collect()
        }
        "equals" => {
            let k = big(&op["k"]);
            (0..d).map(|m| popcount(m) as u64 == k).collect()
        }
        "symmetric" => {
            let cb: Vec<usize> = op["cb"].as_array()?.iter().map(|x| x.as_u64().unwrap() as usize).collect();
            (0..d).map(|m| cb.contains(&popcount(m))).collect()
        }
        _ => return None,
    })
}

/// brute-force orbit minimum (kind "n": all sizes up to 9; "p": up to 6; "npn": up to 5)
pub fn orbit_min(kind: &str, t: &Tab) -> Option<Tab> {
    let n = nvars(t);
    let perms: Vec<Vec<usize>> = if kind == "n" {
        vec![(0..n).collect()]
    } else {
        if (kind == "p" && n > 6) || (kind == "npn" && n > 5) {
            return None;
        }
        let mut all = vec![vec![]];
        for _ in 0..n {
            let mut nxt = Vec::new();
            for p in &all {
                for v in 0..n {
                    if !p.contains(&v) {
                        let mut q: Vec<usize> = p.clone();
                        q.push(v);
                        nxt.push(q);
                    }
                }
            }
            all = nxt;
        }
        all
    };
    if kind == "n" && n > 9 {
        return None;
    }
    let mut best = t.clone();
    for p in &perms {
        let g: Tab = (0..t.len())
            .map(|y| {
                let mut x = 0usize;
                for i in 0..n {
                    if bit(y, i) {
                        x |= 1 << p[i];
                    }
                }
                t[x]
            })
            .collect();
        let masks = if kind == "p" { 1 } else { 1usize << n };
        for m in 0..masks {
            let h: Tab = (0..g.len()).map(|y| g[y ^ m]).collect();
            if cmp(&h, &best) == "lt" {
                best = h.clone();
            }
            if kind != "p" {
                let hc: Tab = h.iter().map(|b| !*b).collect();
                if cmp(&hc, &best) == "lt" {
                    best = hc;
                }
            }
        }
    }
    Some(best)
}

/// g(y) = f(x) xor mask[n], x[perm[i]] = y[i] xor mask[i]
pub fn apply_cert(t: &Tab, perm: &[usize], mask: &[usize]) -> Option<Tab> {
    let n = nvars(t);
    if perm.len() != n || perm.iter().any(|p| *p >= n) {
        return None;
    }
    Some(
        (0..t.len())
            .map(|y| {
                let mut x = 0usize;
                for i in 0..n {
                    if bit(y, i) != mask.contains(&i) {
                        x |= 1 << perm[i];
                    }
                }
                t[x] != mask.contains(&n)
            })
            .collect(),
    )
}
