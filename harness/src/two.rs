//! Executor for the two-level forms (Cube, Ecube, Sop, Esop, Soes).  Events are self-contained:
//! every event logs the projection of its operands (read through the public accessors) and of
//! its result, so the specification needs no state for them.

use crate::exec::{arg_list, arg_str, arg_usize, enc, pack};
use serde_json::{json, Map, Value};
use std::panic::{catch_unwind, AssertUnwindSafe};
use volute::sop::{Cube, Ecube, Esop, Soes, Sop};
use volute::Lut;

#[derive(Clone, Debug)]
pub enum V {
    Cube(Cube),
    Ecube(Ecube),
    Sop(Sop),
    Esop(Esop),
    Soes(Soes),
}

fn mask_of(bits: &[usize]) -> usize {
    let mut m = 0usize;
    for &b in bits {
        m |= 1usize << b;
    }
    m
}

pub fn proj_cube(c: &Cube) -> Value {
    json!({
        "p": c.pos_vars().collect::<Vec<usize>>(),
        "q": c.neg_vars().collect::<Vec<usize>>(),
        "z": *c == Cube::zero(),
    })
}

pub fn proj_ecube(c: &Ecube) -> Value {
    // the XNOR flag is not exposed by an accessor: it is the value on the all-zeros assignment
    json!({"v": c.vars().collect::<Vec<usize>>(), "x": c.value(0)})
}

fn vals_of(n: usize, f: impl Fn(usize) -> bool) -> Value {
    if n <= 12 {
        json!((0..(1usize << n)).filter(|&m| f(m)).collect::<Vec<usize>>())
    } else {
        Value::Null
    }
}

pub fn proj(v: &V) -> Value {
    match v {
        V::Cube(c) => proj_cube(c),
        V::Ecube(c) => proj_ecube(c),
        V::Sop(s) => json!({"n": s.num_vars(), "cubes": s.cubes().iter().map(proj_cube).collect::<Vec<_>>(),
                            "vals": vals_of(s.num_vars(), |m| s.value(m))}),
        V::Esop(s) => json!({"n": s.num_vars(), "cubes": s.cubes().iter().map(proj_cube).collect::<Vec<_>>(),
                             "vals": vals_of(s.num_vars(), |m| s.value(m))}),
        V::Soes(s) => json!({"n": s.num_vars(), "cubes": s.cubes().iter().map(proj_ecube).collect::<Vec<_>>(),
                             "vals": vals_of(s.num_vars(), |m| s.value(m))}),
    }
}

fn kind_of(v: &V) -> &'static str {
    match v {
        V::Cube(_) => "cube",
        V::Ecube(_) => "ecube",
        V::Sop(_) => "sop",
        V::Esop(_) => "esop",
        V::Soes(_) => "soes",
    }
}

fn cube_from_json(c: &Value) -> Cube {
    Cube::from_vars(&arg_list(c, "p"), &arg_list(c, "q"))
}

fn ecube_from_json(c: &Value) -> Ecube {
    Ecube::from_vars(&arg_list(c, "v"), c["x"].as_bool().expect("HARNESS: x"))
}

/// a formatter sink that fails once more than `left` bytes have been written
pub struct FailingSink {
    pub left: usize,
}

impl std::fmt::Write for FailingSink {
    fn write_str(&mut self, s: &str) -> std::fmt::Result {
        if s.len() > self.left {
            self.left = 0;
            Err(std::fmt::Error)
        } else {
            self.left -= s.len();
            Ok(())
        }
    }
}

pub struct TwoState {
    pub slots: Vec<Option<V>>,
}

impl TwoState {
    pub fn new() -> Self {
        TwoState { slots: (0..8).map(|_| None).collect() }
    }

    fn get(&self, s: usize) -> &V {
        self.slots[s].as_ref().unwrap_or_else(|| panic!("EMPTYSLOT {}", s))
    }

    pub fn exec(&mut self, op: &Value) -> Value {
        let mut ev = op.as_object().expect("HARNESS: op not an object").clone();
        for k in ["ty", "out", "r", "av", "bv", "vals"] {
            ev.remove(k);
        }
        ev.insert("ty".into(), json!("two"));
        let name = arg_str(op, "op").to_string();
        if name == "reset" {
            *self = TwoState::new();
            ev.insert("out".into(), json!("ok"));
            return Value::Object(ev);
        }
        let res = catch_unwind(AssertUnwindSafe(|| self.exec_inner(&name, op)));
        match res {
            Ok(fields) => {
                ev.insert("out".into(), json!("ok"));
                for (k, v) in fields {
                    ev.insert(k, v);
                }
            }
            Err(payload) => {
                let msg = if let Some(s) = payload.downcast_ref::<&str>() {
                    s.to_string()
                } else if let Some(s) = payload.downcast_ref::<String>() {
                    s.clone()
                } else {
                    String::new()
                };
                let out = if msg.starts_with("EMPTYSLOT") { "skip" } else { "panic" };
                ev.insert("out".into(), json!(out));
            }
        }
        Value::Object(ev)
    }

    fn exec_inner(&mut self, name: &str, op: &Value) -> Map<String, Value> {
        let mut out = Map::new();
        match name {
            "t_mk" => {
                let d = arg_usize(op, "d");
                let k = arg_str(op, "k");
                let c = arg_str(op, "c");
                let v = match (k, c) {
                    ("cube", "one") => V::Cube(Cube::one()),
                    ("cube", "zero") => V::Cube(Cube::zero()),
                    ("cube", "nth_var") => V::Cube(Cube::nth_var(arg_usize(op, "i"))),
                    ("cube", "nth_var_inv") => V::Cube(Cube::nth_var_inv(arg_usize(op, "i"))),
                    ("cube", "minterm") => V::Cube(Cube::minterm(arg_usize(op, "n"), mask_of(&arg_list(op, "mb")))),
                    ("cube", "from_vars") => V::Cube(Cube::from_vars(&arg_list(op, "p"), &arg_list(op, "q"))),
                    ("cube", "from_mask") => V::Cube(Cube::from_mask(
                        mask_of(&arg_list(op, "p")) as u32,
                        mask_of(&arg_list(op, "q")) as u32,
                    )),
                    ("ecube", "one") => V::Ecube(Ecube::one()),
                    ("ecube", "zero") => V::Ecube(Ecube::zero()),
                    ("ecube", "nth_var") => V::Ecube(Ecube::nth_var(arg_usize(op, "i"))),
                    ("ecube", "nth_var_inv") => V::Ecube(Ecube::nth_var_inv(arg_usize(op, "i"))),
                    ("ecube", "from_vars") => V::Ecube(Ecube::from_vars(&arg_list(op, "v"), op["x"].as_bool().unwrap())),
                    ("sop", "zero") => V::Sop(Sop::zero(arg_usize(op, "n"))),
                    ("sop", "one") => V::Sop(Sop::one(arg_usize(op, "n"))),
                    ("sop", "nth_var") => V::Sop(Sop::nth_var(arg_usize(op, "n"), arg_usize(op, "i"))),
                    ("sop", "nth_var_inv") => V::Sop(Sop::nth_var_inv(arg_usize(op, "n"), arg_usize(op, "i"))),
                    ("sop", "from_cubes") => V::Sop(Sop::from_cubes(
                        arg_usize(op, "n"),
                        op["cubes"].as_array().unwrap().iter().map(cube_from_json).collect(),
                    )),
                    ("sop", "from_lut_ref") | ("sop", "from_lut_val") | ("esop", "from_lut_ref") | ("esop", "from_lut_val") => {
                        let n = arg_usize(op, "n");
                        let lut = Lut::from_blocks(n, &pack(n, &arg_list(op, "on")));
                        match (k, c) {
                            ("sop", "from_lut_ref") => V::Sop(Sop::from(&lut)),
                            ("sop", _) => V::Sop(Sop::from(lut)),
                            ("esop", "from_lut_ref") => V::Esop(Esop::from(&lut)),
                            _ => V::Esop(Esop::from(lut)),
                        }
                    }
                    ("esop", "zero") => V::Esop(Esop::zero(arg_usize(op, "n"))),
                    ("esop", "one") => V::Esop(Esop::one(arg_usize(op, "n"))),
                    ("esop", "nth_var") => V::Esop(Esop::nth_var(arg_usize(op, "n"), arg_usize(op, "i"))),
                    ("esop", "nth_var_inv") => V::Esop(Esop::nth_var_inv(arg_usize(op, "n"), arg_usize(op, "i"))),
                    ("esop", "from_cubes") => V::Esop(Esop::from_cubes(
                        arg_usize(op, "n"),
                        op["cubes"].as_array().unwrap().iter().map(cube_from_json).collect(),
                    )),
                    ("soes", "zero") => V::Soes(Soes::zero(arg_usize(op, "n"))),
                    ("soes", "one") => V::Soes(Soes::one(arg_usize(op, "n"))),
                    ("soes", "nth_var") => V::Soes(Soes::nth_var(arg_usize(op, "n"), arg_usize(op, "i"))),
                    ("soes", "nth_var_inv") => V::Soes(Soes::nth_var_inv(arg_usize(op, "n"), arg_usize(op, "i"))),
                    ("soes", "from_cubes") => V::Soes(Soes::from_cubes(
                        arg_usize(op, "n"),
                        op["cubes"].as_array().unwrap().iter().map(ecube_from_json).collect(),
                    )),
                    _ => panic!("HARNESS: bad t_mk {} {}", k, c),
                };
                out.insert("r".into(), proj(&v));
                self.slots[d] = Some(v);
            }
            "t_val" => {
                let a = self.get(arg_usize(op, "a"));
                let m = mask_of(&arg_list(op, "mb"));
                let r = match a {
                    V::Cube(c) => c.value(m),
                    V::Ecube(c) => c.value(m),
                    V::Sop(s) => s.value(m),
                    V::Esop(s) => s.value(m),
                    V::Soes(s) => s.value(m),
                };
                out.insert("k".into(), json!(kind_of(a)));
                out.insert("av".into(), proj(a));
                out.insert("r".into(), json!(r));
            }
            "t_bin" => {
                let a = self.get(arg_usize(op, "a")).clone();
                let b = self.get(arg_usize(op, "b")).clone();
                let d = arg_usize(op, "d");
                let g = arg_str(op, "g");
                let f = arg_str(op, "f");
                macro_rules! forms {
                    ($x:expr, $y:expr, $o:tt) => {
                        match f {
                            "val_val" => $x.clone() $o $y.clone(),
                            "ref_val" => &$x $o $y.clone(),
                            "ref_ref" => &$x $o &$y,
                            "val_ref" => $x.clone() $o &$y,
                            _ => panic!("HARNESS: bad form"),
                        }
                    };
                }
                let r = match (&a, &b, g) {
                    (V::Cube(x), V::Cube(y), "and") => V::Cube(forms!(*x, *y, &)),
                    (V::Ecube(x), V::Ecube(y), "xor") => V::Ecube(forms!(*x, *y, ^)),
                    (V::Sop(x), V::Sop(y), "and") => V::Sop(forms!(*x, *y, &)),
                    (V::Sop(x), V::Sop(y), "or") => V::Sop(forms!(*x, *y, |)),
                    (V::Esop(x), V::Esop(y), "xor") => V::Esop(forms!(*x, *y, ^)),
                    (V::Soes(x), V::Soes(y), "or") => V::Soes(forms!(*x, *y, |)),
                    _ => panic!("HARNESS: bad t_bin"),
                };
                out.insert("k".into(), json!(kind_of(&a)));
                out.insert("av".into(), proj(&a));
                out.insert("bv".into(), proj(&b));
                out.insert("r".into(), proj(&r));
                self.slots[d] = Some(r);
            }
            "t_not" => {
                let a = self.get(arg_usize(op, "a")).clone();
                let d = arg_usize(op, "d");
                let by_ref = arg_str(op, "f") == "ref";
                let r = match &a {
                    V::Ecube(x) => V::Ecube(if by_ref { !x } else { !*x }),
                    V::Sop(x) => V::Sop(if by_ref { !x } else { !x.clone() }),
                    V::Esop(x) => V::Esop(if by_ref { !x } else { !x.clone() }),
                    _ => panic!("HARNESS: bad t_not"),
                };
                out.insert("k".into(), json!(kind_of(&a)));
                out.insert("av".into(), proj(&a));
                out.insert("r".into(), proj(&r));
                self.slots[d] = Some(r);
            }
            "t_rel" => {
                let a = self.get(arg_usize(op, "a"));
                let b = self.get(arg_usize(op, "b"));
                let f = arg_str(op, "f");
                let r = match (a, b, f) {
                    (V::Cube(x), V::Cube(y), "implies") => x.implies(*y),
                    (V::Cube(x), V::Cube(y), "intersects") => x.intersects(*y),
                    (V::Cube(x), V::Cube(y), "eq") => x == y,
                    (V::Ecube(x), V::Ecube(y), "eq") => x == y,
                    (V::Sop(x), V::Sop(y), "eq") => x == y,
                    (V::Esop(x), V::Esop(y), "eq") => x == y,
                    (V::Soes(x), V::Soes(y), "eq") => x == y,
                    _ => panic!("HARNESS: bad t_rel"),
                };
                out.insert("k".into(), json!(kind_of(a)));
                out.insert("av".into(), proj(a));
                out.insert("bv".into(), proj(b));
                out.insert("r".into(), json!(r));
            }
            "t_implut" => {
                let a = self.get(arg_usize(op, "a"));
                let n = arg_usize(op, "n");
                let lut = Lut::from_blocks(n, &pack(n, &arg_list(op, "on")));
                let r = match a {
                    V::Cube(c) => c.implies_lut(&lut),
                    V::Ecube(c) => c.implies_lut(&lut),
                    _ => panic!("HARNESS: bad t_implut"),
                };
                out.insert("k".into(), json!(kind_of(a)));
                out.insert("av".into(), proj(a));
                out.insert("r".into(), json!(r));
            }
            "t_info" => {
                let a = self.get(arg_usize(op, "a"));
                let r = match a {
                    V::Cube(c) => json!({"num_lits": c.num_lits(), "num_gates": c.num_gates(), "is_zero": c.is_zero(),
                                         "is_one": c.is_one(), "is_constant": c.is_constant()}),
                    V::Ecube(c) => json!({"num_lits": c.num_lits(), "num_gates": c.num_gates(), "is_zero": c.is_zero(),
                                          "is_one": c.is_one()}),
                    V::Sop(s) => json!({"num_lits": s.num_lits(), "num_cubes": s.num_cubes(), "is_zero": s.is_zero(),
                                        "is_one": s.is_one(), "num_vars": s.num_vars()}),
                    V::Esop(s) => json!({"num_lits": s.num_lits(), "num_cubes": s.num_cubes(), "is_zero": s.is_zero(),
                                         "is_one": s.is_one(), "num_vars": s.num_vars()}),
                    V::Soes(s) => json!({"num_lits": s.num_lits(), "num_cubes": s.num_cubes(), "is_zero": s.is_zero(),
                                         "is_one": s.is_one(), "num_vars": s.num_vars()}),
                };
                out.insert("k".into(), json!(kind_of(a)));
                out.insert("av".into(), proj(a));
                out.insert("r".into(), r);
            }
            "t_all" => {
                let n = arg_usize(op, "n");
                let r: Vec<Value> = match arg_str(op, "k") {
                    "cube" => Cube::all(n).map(|c| proj_cube(&c)).collect(),
                    "ecube" => Ecube::all(n).map(|c| proj_ecube(&c)).collect(),
                    _ => panic!("HARNESS: bad t_all"),
                };
                out.insert("r".into(), json!(r));
            }
            "t_tolut" => {
                let a = self.get(arg_usize(op, "a")).clone();
                let by_ref = arg_str(op, "f") == "ref";
                let lut = match &a {
                    V::Sop(s) => if by_ref { Lut::from(s) } else { Lut::from(s.clone()) },
                    V::Esop(s) => if by_ref { Lut::from(s) } else { Lut::from(s.clone()) },
                    V::Soes(s) => if by_ref { Lut::from(s) } else { Lut::from(s.clone()) },
                    _ => panic!("HARNESS: bad t_tolut"),
                };
                out.insert("k".into(), json!(kind_of(&a)));
                out.insert("av".into(), proj(&a));
                out.insert("r".into(), enc(&lut));
            }
            "t_text" => {
                let a = self.get(arg_usize(op, "a"));
                let n = arg_usize(op, "n");
                // Display, possibly called with formatter flags (a column of a table, a sign, a precision)
                let flags = op.get("fmt").and_then(|v| v.as_str()).unwrap_or("");
                let show = |x: &dyn std::fmt::Display| -> String {
                    match flags {
                        "" => x.to_string(),
                        "w8" => format!("{:8}", x),
                        "right" => format!("{:>14}", x),
                        "center" => format!("{:^11}", x),
                        "plus" => format!("{:+}", x),
                        "zero" => format!("{:06}", x),
                        "alt" => format!("{:#}", x),
                        _ => panic!("HARNESS: bad fmt"),
                    }
                };
                let (s, vals) = match a {
                    V::Cube(c) => (show(c), vals_of(n, |m| c.value(m))),
                    V::Ecube(c) => (show(c), vals_of(n, |m| c.value(m))),
                    V::Sop(x) => (show(x), vals_of(n, |m| x.value(m))),
                    V::Esop(x) => (show(x), vals_of(n, |m| x.value(m))),
                    V::Soes(x) => (show(x), vals_of(n, |m| x.value(m))),
                };
                out.insert("k".into(), json!(kind_of(a)));
                out.insert("av".into(), proj(a));
                out.insert("r".into(), json!(s.as_bytes()));
                out.insert("vals".into(), vals);
            }
            "t_text_fail" => {
                // Display into a sink that gives up after `limit` bytes (a bounded buffer): the failure must leave
                // nothing behind that a later print could pick up
                let a = self.get(arg_usize(op, "a"));
                let mut sink = FailingSink { left: arg_usize(op, "limit") };
                use std::fmt::Write;
                let res = match a {
                    V::Cube(c) => write!(sink, "{}", c),
                    V::Ecube(c) => write!(sink, "{}", c),
                    V::Sop(x) => write!(sink, "{}", x),
                    V::Esop(x) => write!(sink, "{}", x),
                    V::Soes(x) => write!(sink, "{}", x),
                };
                out.insert("k".into(), json!(kind_of(a)));
                out.insert("r".into(), json!(res.is_ok()));
            }
            "t_alltext" => {
                let n = arg_usize(op, "n");
                let r: Vec<Value> = match arg_str(op, "k") {
                    "cube" => Cube::all(n).map(|c| json!({"c": proj_cube(&c), "t": c.to_string().as_bytes()})).collect(),
                    "ecube" => Ecube::all(n).map(|c| json!({"c": proj_ecube(&c), "t": c.to_string().as_bytes()})).collect(),
                    _ => panic!("HARNESS: bad t_alltext"),
                };
                out.insert("r".into(), json!(r));
            }
            #[cfg(feature = "optim")]
            "optimize" => {
                let n = arg_usize(op, "n");
                let fs: Vec<Lut> = op["fs"].as_array().unwrap().iter().map(|f| lut_of(n, f)).collect();
                out.insert("r".into(), json!(run_opt(arg_str(op, "kind"), n, &fs, op)));
            }
            #[cfg(feature = "optim")]
            "optimize_var" => {
                // the same instance up to a permutation of the inputs and a reordering of the outputs: the minimum
                // cost is the same.  Variants are built here, value by value (the specification recomputes them).
                let n = arg_usize(op, "n");
                let base: Vec<Vec<usize>> = op["fs"].as_array().unwrap().iter().map(|f| arg_list(&json!({"x": f}), "x")).collect();
                let mut r: Vec<Value> = Vec::new();
                let ident = json!({"perm": (0..n).collect::<Vec<usize>>(), "order": (0..base.len()).collect::<Vec<usize>>()});
                for v in std::iter::once(&ident).chain(op["variants"].as_array().unwrap().iter()) {
                    let perm = arg_list(v, "perm");
                    let order = arg_list(v, "order");
                    let vfs: Vec<Vec<usize>> = order
                        .iter()
                        .map(|&j| {
                            (0..(1usize << n))
                                .filter(|&y| {
                                    let mut x = 0usize;
                                    for i in 0..n {
                                        if (y >> i) & 1 == 1 {
                                            x |= 1 << perm[i];
                                        }
                                    }
                                    base[j].contains(&x)
                                })
                                .collect()
                        })
                        .collect();
                    let luts: Vec<Lut> = vfs.iter().map(|on| Lut::from_blocks(n, &pack(n, on))).collect();
                    r.push(json!({"fs": vfs, "sol": run_opt(arg_str(op, "kind"), n, &luts, op)}));
                }
                out.insert("r".into(), json!(r));
            }
            _ => panic!("HARNESS: unknown two-level op {}", name),
        }
        out
    }
}

#[cfg(feature = "optim")]
fn lut_of(n: usize, f: &Value) -> Lut {
    let on: Vec<usize> = f.as_array().unwrap().iter().map(|x| x.as_u64().unwrap() as usize).collect();
    Lut::from_blocks(n, &pack(n, &on))
}

/// One call of a MIP optimizer; every returned form projected through the public accessors
#[cfg(feature = "optim")]
fn run_opt(kind: &str, n: usize, fs: &[Lut], op: &Value) -> Vec<Value> {
    use volute::sop::optim::{optimize_esop_mip, optimize_sop_mip, optimize_sopes_mip};
    let andc = op["andc"].as_i64().unwrap() as i32;
    let xorc = op["xorc"].as_i64().unwrap() as i32;
    let orc = op["orc"].as_i64().unwrap() as i32;
    let none: Vec<Value> = Vec::new();
    match kind {
        "sop" => optimize_sop_mip(fs, andc, orc)
            .iter()
            .map(|s| json!({"cubes": s.cubes().iter().map(proj_cube).collect::<Vec<_>>(), "ecubes": none,
                            "vals": vals_of(n, |m| s.value(m)), "lut": enc(&Lut::from(s))}))
            .collect(),
        "sopes" => optimize_sopes_mip(fs, andc, xorc, orc)
            .iter()
            .map(|(s, x)| json!({"cubes": s.cubes().iter().map(proj_cube).collect::<Vec<_>>(),
                                 "ecubes": x.cubes().iter().map(proj_ecube).collect::<Vec<_>>(),
                                 "vals": vals_of(n, |m| s.value(m) || x.value(m)),
                                 "lut": enc(&(Lut::from(s) | Lut::from(x)))}))
            .collect(),
        "esop" => optimize_esop_mip(fs, andc, xorc)
            .iter()
            .map(|s| json!({"cubes": s.cubes().iter().map(proj_cube).collect::<Vec<_>>(), "ecubes": none,
                            "vals": vals_of(n, |m| s.value(m)), "lut": enc(&Lut::from(s))}))
            .collect(),
        _ => panic!("HARNESS: bad optimizer kind"),
    }
}
